/* LD_PRELOAD shim (seam H for real child processes): std's RandomState keys become a
 * pure function of the environment variable VERIF_HASH_SEED. Only used by the simulator
 * when it runs the built `wac` binary; the binary itself is unchanged. */
#define _GNU_SOURCE
#include <stddef.h>
#include <stdint.h>
#include <stdlib.h>
#include <sys/types.h>

static uint64_t splitmix64(uint64_t *s) {
    uint64_t z = (*s += 0x9E3779B97F4A7C15ULL);
    z = (z ^ (z >> 30)) * 0xBF58476D1CE4E5B9ULL;
    z = (z ^ (z >> 27)) * 0x94D049BB133111EBULL;
    return z ^ (z >> 31);
}

ssize_t getrandom(void *buf, size_t len, unsigned int flags) {
    static uint64_t calls = 0;
    (void)flags;
    const char *e = getenv("VERIF_HASH_SEED");
    uint64_t seed = e ? strtoull(e, NULL, 0) : 0x5EED000000000001ULL;
    uint64_t state = seed ^ (__atomic_fetch_add(&calls, 1, __ATOMIC_SEQ_CST) * 0xD6E8FEB86659FD93ULL);
    unsigned char *p = (unsigned char *)buf;
    size_t i = 0;
    while (i < len) {
        uint64_t v = splitmix64(&state);
        for (int j = 0; j < 8 && i < len; j++, i++) p[i] = (unsigned char)(v >> (8 * j));
    }
    return (ssize_t)len;
}
