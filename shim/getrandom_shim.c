/* LD_PRELOAD shim (seam H for real child processes): std's RandomState keys become a
 * pure function of the environment variable VERIF_HASH_SEED. Only used by the simulator
 * when it runs the built `wac` binary; the binary itself is unchanged. */
#define _GNU_SOURCE
#include <stddef.h>
#include <stdint.h>
#include <stdlib.h>
#include <sys/types.h>
#include <stdio.h>

static uint64_t splitmix64(uint64_t *s) {
    uint64_t z = (*s += 0x9E3779B97F4A7C15ULL);
    z = (z ^ (z >> 30)) * 0xBF58476D1CE4E5B9ULL;
    z = (z ^ (z >> 27)) * 0x94D049BB133111EBULL;
    return z ^ (z >> 31);
}

ssize_t getrandom(void *buf, size_t len, unsigned int flags) {
    static uint64_t calls = 0;
    (void)flags;
    const char *e = getenv("VERIF_HASH_SEED");
    uint64_t seed = e ? strtoull(e, NULL, 0) : 0x5EED000000000001ULL;
    uint64_t state = seed ^ (__atomic_fetch_add(&calls, 1, __ATOMIC_SEQ_CST) * 0xD6E8FEB86659FD93ULL);
    unsigned char *p = (unsigned char *)buf;
    size_t i = 0;
    while (i < len) {
        uint64_t v = splitmix64(&state);
        for (int j = 0; j < 8 && i < len; j++, i++) p[i] = (unsigned char)(v >> (8 * j));
    }
    return (ssize_t)len;
}

/* ---------------------------------------------------------------------------------------
 * Seam S: system-call faults for the real child process (C19). Inactive unless the
 * environment variable VERIF_IO_PLAN is set. The plan is a list of `key=value` items
 * separated by ','; every decision is a counter comparison, so one plan is one exactly
 * repeatable behaviour (the child is single-threaded on its I/O path):
 *   root=<dir>        only descriptors whose path is under <dir> (and fd 1 for writes) are touched
 *   short_write=<n>   a write transfers at most n bytes                     (legal kernel behaviour)
 *   short_read=<n>    a read transfers at most n bytes                      (legal kernel behaviour)
 *   eintr=<k>         every k-th eligible read / write fails with EINTR before doing anything (k >= 2)
 *   enospc_after=<b>  after b bytes the device is full: the write that crosses b is cut short,
 *                     every later one fails with ENOSPC
 *   eio_read=<k>      the k-th eligible read (1-based) and every later one on that descriptor's
 *                     file fail with EIO (a bad sector)
 *   open_fail=<k>     the k-th open (1-based) of a path under root for reading fails with EACCES
 *   report=<file>     each fault that *fires* appends one line `<kind>` to <file> (not under root)
 * stderr (fd 2) is never touched.
 * ------------------------------------------------------------------------------------- */
#include <errno.h>
#include <fcntl.h>
#include <stdarg.h>
#include <string.h>
#include <sys/syscall.h>
#include <unistd.h>

static struct {
    int init, active;
    char root[512];
    size_t rootlen;
    char report[512];
    long short_write, short_read, eintr, enospc_after, eio_read, open_fail;
    long rw_calls, wbytes, reads, opens;
    int last_eintr;
    unsigned long fired_mask;
} P;

static long plan_num(const char *plan, const char *key) {
    size_t kl = strlen(key);
    const char *p = plan;
    while (p && *p) {
        if (!strncmp(p, key, kl) && p[kl] == '=') return strtol(p + kl + 1, NULL, 10);
        p = strchr(p, ',');
        if (p) p++;
    }
    return -1;
}

static void plan_str(const char *plan, const char *key, char *out, size_t cap) {
    size_t kl = strlen(key);
    const char *p = plan;
    out[0] = 0;
    while (p && *p) {
        if (!strncmp(p, key, kl) && p[kl] == '=') {
            const char *v = p + kl + 1;
            const char *e = strchr(v, ',');
            size_t n = e ? (size_t)(e - v) : strlen(v);
            if (n >= cap) n = cap - 1;
            memcpy(out, v, n);
            out[n] = 0;
            return;
        }
        p = strchr(p, ',');
        if (p) p++;
    }
}

static void plan_init(void) {
    if (P.init) return;
    P.init = 1;
    const char *plan = getenv("VERIF_IO_PLAN");
    if (!plan || !*plan) return;
    plan_str(plan, "root", P.root, sizeof P.root);
    P.rootlen = strlen(P.root);
    plan_str(plan, "report", P.report, sizeof P.report);
    P.short_write = plan_num(plan, "short_write");
    P.short_read = plan_num(plan, "short_read");
    P.eintr = plan_num(plan, "eintr");
    P.enospc_after = plan_num(plan, "enospc_after");
    P.eio_read = plan_num(plan, "eio_read");
    P.open_fail = plan_num(plan, "open_fail");
    P.active = P.rootlen > 0;
}

static void fired(int bit, const char *kind) {
    if (P.fired_mask & (1ul << bit)) return; /* one line per kind */
    P.fired_mask |= 1ul << bit;
    if (!P.report[0]) return;
    long fd = syscall(SYS_openat, AT_FDCWD, P.report, O_WRONLY | O_APPEND | O_CREAT, 0644);
    if (fd < 0) return;
    syscall(SYS_write, fd, kind, strlen(kind));
    syscall(SYS_write, fd, "\n", 1);
    syscall(SYS_close, fd);
}

static int under_root_path(const char *path) {
    if (!path) return 0;
    if (path[0] != '/') {
        /* relative: the child's cwd is the scratch tree itself or a directory inside it */
        char cwd[600];
        long n = syscall(SYS_getcwd, cwd, sizeof cwd);
        if (n <= 0) return 0;
        size_t l = strlen(cwd);
        if (l + 1 < sizeof cwd) { cwd[l] = '/'; cwd[l + 1] = 0; }
        return !strncmp(cwd, P.root, P.rootlen);
    }
    return !strncmp(path, P.root, P.rootlen);
}

static int under_root_fd(int fd) {
    char link[64], path[600];
    snprintf(link, sizeof link, "/proc/self/fd/%d", fd);
    long n = syscall(SYS_readlinkat, AT_FDCWD, link, path, sizeof path - 1);
    if (n <= 0) return 0;
    path[n] = 0;
    return !strncmp(path, P.root, P.rootlen);
}

ssize_t write(int fd, const void *buf, size_t n) {
    plan_init();
    if (!P.active || fd == 2 || n == 0 || !(fd == 1 || under_root_fd(fd))) return syscall(SYS_write, fd, buf, n);
    P.rw_calls++;
    if (P.eintr >= 2 && P.rw_calls % P.eintr == 0) {
        fired(0, "eintr");
        errno = EINTR;
        return -1;
    }
    if (P.enospc_after >= 0) {
        if (P.wbytes >= P.enospc_after) {
            fired(1, "enospc");
            errno = ENOSPC;
            return -1;
        }
        if ((long)n > P.enospc_after - P.wbytes) n = (size_t)(P.enospc_after - P.wbytes);
    }
    if (P.short_write >= 1 && (long)n > P.short_write) {
        fired(2, "short_write");
        n = (size_t)P.short_write;
    }
    long r = syscall(SYS_write, fd, buf, n);
    if (r > 0) P.wbytes += r;
    return r;
}

ssize_t read(int fd, void *buf, size_t n) {
    plan_init();
    if (!P.active || n == 0 || fd <= 2 || !under_root_fd(fd)) return syscall(SYS_read, fd, buf, n);
    P.rw_calls++;
    P.reads++;
    if (P.eio_read >= 1 && P.reads >= P.eio_read) {
        fired(3, "eio_read");
        errno = EIO;
        return -1;
    }
    if (P.eintr >= 2 && P.rw_calls % P.eintr == 0) {
        fired(0, "eintr");
        errno = EINTR;
        return -1;
    }
    if (P.short_read >= 1 && (long)n > P.short_read) {
        fired(4, "short_read");
        n = (size_t)P.short_read;
    }
    return syscall(SYS_read, fd, buf, n);
}

static int open_hook(const char *path, int flags) {
    plan_init();
    if (!P.active || P.open_fail < 1) return 0;
    if ((flags & O_ACCMODE) != O_RDONLY || (flags & O_DIRECTORY)) return 0;
    if (!under_root_path(path)) return 0;
    P.opens++;
    if (P.opens == P.open_fail) {
        fired(5, "open_fail");
        errno = EACCES;
        return 1;
    }
    return 0;
}

int open64(const char *path, int flags, ...) {
    mode_t mode = 0;
    if (flags & (O_CREAT | O_TMPFILE)) {
        va_list ap;
        va_start(ap, flags);
        mode = va_arg(ap, mode_t);
        va_end(ap);
    }
    if (open_hook(path, flags)) return -1;
    return (int)syscall(SYS_openat, AT_FDCWD, path, flags | O_LARGEFILE, mode);
}

int open(const char *path, int flags, ...) {
    mode_t mode = 0;
    if (flags & (O_CREAT | O_TMPFILE)) {
        va_list ap;
        va_start(ap, flags);
        mode = va_arg(ap, mode_t);
        va_end(ap);
    }
    if (open_hook(path, flags)) return -1;
    return (int)syscall(SYS_openat, AT_FDCWD, path, flags, mode);
}
