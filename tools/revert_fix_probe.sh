#!/usr/bin/env bash
# usage: tools/revert_fix_probe.sh <sha> <PROP>   — un-applies one fix: commit in /repo's working tree, runs the quick check, restores.
sha=$1; prop=$2
cd /repo || exit 2
git diff --quiet || { echo "/repo dirty"; exit 2; }
git show "$sha" -- . | git apply -R || { echo "cannot un-apply $sha"; git checkout -- .; exit 2; }
cd /verif
out=$(./check "$prop" quick 2>&1); code=$?
echo "$sha $prop exit=$code: $(echo "$out" | grep '^violation class' | sed 's/ runs=.*//' | tr '\n' ';' | cut -c1-300)"
cd /repo && git checkout -- .
