import json,sys,shutil,os
# usage: mkseed.py <id> <srcdir> <prop> <summary> <needs> <detected classes csv> <history> [patch override]
id_,src,prop,summary,needs,classes,history=sys.argv[1:8]
dst=f'/verif/seeded/{id_}'; os.makedirs(dst,exist_ok=True)
for f in os.listdir(src):
    if f.endswith('.log') or f=='place.txt': continue
    shutil.copy(os.path.join(src,f),dst)
if len(sys.argv)>8:
    shutil.copy(os.path.join(src,'patch.diff'),os.path.join(dst,'patch.orig.diff'))
    shutil.copy(sys.argv[8],os.path.join(dst,'patch.diff'))
wt=src.split('/mutations/')[0]; m=os.path.basename(src)
conf=open(f'/var/tmp/confirm-{wt.split("-")[-1]}.out').read().split('=== ')
res=[b for b in conf if b.startswith(m+'\n')]
meta={"property":prop,"breaks_property":prop,"round":6,"summary":summary,"needs_to_manifest":needs,
 "commands_run":["see notes.md (sub-agent) and confirmed_by_me"],
 "confirmed_by_me":{"worktree":f"{wt} (scratch git worktree of /repo at bc443ce, removed afterwards)","script":"/var/tmp/confirm6.sh (RUST_BACKTRACE=0): workspace suite with patch, demonstration with patch, demonstration without patch","result":res[0].strip().split('\n')[1:] if res else []},
 "detected_by":{"check":f"{prop} quick","violation_classes":[c for c in classes.split(',') if c],"history":history,"how":f"git -C /repo apply seeded/{id_}/patch.diff; ./check {prop} quick; git -C /repo checkout -- ."}}
json.dump(meta,open(os.path.join(dst,'meta.json'),'w'),indent=1,ensure_ascii=False)
print(dst, os.listdir(dst))
