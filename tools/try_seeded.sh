#!/usr/bin/env bash
# usage: tools/try_seeded.sh <PROP> <patch.diff> [tier]   — applies the patch to /repo, runs the check, reverts.
set -u
prop=$1; patch=$2; tier=${3:-quick}
cd /repo || exit 2
if ! git diff --quiet; then echo "/repo has uncommitted changes"; exit 2; fi
git apply "$patch" || { echo "patch does not apply"; exit 2; }
cd /verif
out=$(./check "$prop" "$tier" 2>&1); code=$?
echo "$out" | grep -E "^(VIOLATION|violation class|  |KNOWN-FINDING|$prop )" | grep -v "^KNOWN" | head -20
echo "exit=$code"
cd /repo && git checkout -- . && git clean -fdq -e target
exit $code
