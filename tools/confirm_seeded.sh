#!/usr/bin/env bash
# usage: confirm6.sh <worktree> <kind:cli|test> <mutation dir names...>
wt=$1; kind=$2; shift 2
cd "$wt" || exit 2
export RUST_BACKTRACE=0 CARGO_NET_OFFLINE=true
for m in "$@"; do
  d=$wt/mutations/$m
  echo "=== $m"
  git checkout -q -- . ; git clean -fdq -e target -e mutations
  git apply "$d/patch.diff" || { echo "PATCH DOES NOT APPLY"; continue; }
  cargo test --workspace --no-fail-fast --offline -j 8 > /var/tmp/confirm-$m.log 2>&1
  echo "suite with patch: exit=$? $(grep -E '^test result' /var/tmp/confirm-$m.log | awk '{p+=$4; f+=$6} END {print "passed="p" failed="f}')"
  if [ "$kind" = cli ]; then
    cargo build --offline -q -j 8 --bin wac --no-default-features --features wit,wat 2>&1 | tail -3
    bash "$d/demo.sh" > /var/tmp/confirm-$m-demo-with.log 2>&1; echo "demo WITH patch: exit=$?"
    git checkout -q -- .
    cargo build --offline -q -j 8 --bin wac --no-default-features --features wit,wat 2>&1 | tail -3
    bash "$d/demo.sh" > /var/tmp/confirm-$m-demo-without.log 2>&1; echo "demo WITHOUT patch: exit=$?"
  else
    # demo test file: placed per $d/place.txt lines "<file> <dest> <cargo test args>"
    read -r f dest args < "$d/place.txt"
    cp "$d/$f" "$dest"
    cargo test --offline -j 8 $args > /var/tmp/confirm-$m-demo-with.log 2>&1; echo "demo WITH patch: exit=$?"
    git checkout -q -- .
    cargo test --offline -j 8 $args > /var/tmp/confirm-$m-demo-without.log 2>&1; echo "demo WITHOUT patch: exit=$?"
    rm -f "$dest"
  fi
done
git checkout -q -- . ; git clean -fdq -e target -e mutations
echo "=== done"
