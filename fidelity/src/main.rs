//! Assumption check for C20's reference registry (NOT part of the deterministic core).
//!
//! Spawns the real `warg-server` on loopback (as the pinned test of wac-resolver does),
//! publishes a few packages with released / yanked / pre-release versions, resolves a list
//! of key sets with the real `RegistryPackageResolver` (real `warg-client`, real tokio) and
//! compares the outcome of every key set with the reference model used by the simulation
//! (`/verif/sim/src/regmodel.rs`). It uses real sockets and real time, so it can only
//! ever print a warning; it never prints VIOLATION and is not a registered check.

#[path = "../../sim/src/regmodel.rs"]
mod regmodel;

use anyhow::{Context, Result};
use indexmap::IndexMap;
use miette::SourceSpan;
use regmodel::{verdict, Registry, Release, Verdict};
use semver::Version;
use std::{path::Path, time::Duration};
use tokio_util::sync::CancellationToken;
use wac_resolver::{Error, RegistryPackageResolver};
use wac_types::BorrowedPackageKey;
use warg_client::{
    storage::{ContentStorage, PublishEntry, PublishInfo},
    FileSystemClient,
};
use warg_crypto::signing::PrivateKey;
use warg_protocol::{operator::NamespaceState, registry::PackageName};
use warg_server::{policy::content::WasmContentPolicy, Config, Server};

const OPERATOR_KEY: &str = "ecdsa-p256:I+UlDo0HxyBBFeelhPPWmD+LnklOpqZDkrFP5VduASk=";
const SIGNING_KEY: &str = "ecdsa-p256:2CV1EpLaSYEn4In4OAEDAj5O4Hzu8AFAxgHXuG310Ew=";

fn content(name: &str, version: &str) -> Vec<u8> {
    // unique, valid component per (name, version)
    let tag: String = format!("{name}-{version}")
        .split(|c: char| !c.is_ascii_alphanumeric())
        .filter(|s| !s.is_empty())
        .map(|s| format!("x{s}"))
        .collect::<Vec<_>>()
        .join("-");
    wat::parse_str(format!("(component (import \"c-{tag}\" (func)))")).unwrap()
}

async fn publish(config: &warg_client::Config, name: &PackageName, entries: Vec<PublishEntry>) -> Result<()> {
    let client = FileSystemClient::new_with_config(None, config, None).await?;
    let record_id = client
        .publish_with_info(
            &PrivateKey::decode(SIGNING_KEY.to_string()).unwrap(),
            PublishInfo {
                name: name.clone(),
                head: None,
                entries,
            },
        )
        .await
        .context("failed to publish")?;
    client
        .wait_for_publish(name, &record_id, Duration::from_secs(1))
        .await?;
    Ok(())
}

async fn store(config: &warg_client::Config, bytes: Vec<u8>) -> Result<warg_crypto::hash::AnyHash> {
    let client = FileSystemClient::new_with_config(None, config, None).await?;
    client
        .content()
        .store_content(Box::pin(futures::stream::once(async move { Ok(bytes.into()) })), None)
        .await
        .context("failed to store content")
}

fn classify(r: &Result<IndexMap<BorrowedPackageKey<'_>, Vec<u8>>, Error>, published: &[(String, String, Vec<u8>)]) -> String {
    match r {
        Ok(m) => {
            let mut parts: Vec<String> = m
                .iter()
                .map(|(k, b)| {
                    let which = published
                        .iter()
                        .find(|(_, _, c)| c == b)
                        .map(|(n, v, _)| format!("{n}@{v}"))
                        .unwrap_or_else(|| "unknown-content".into());
                    format!("{k}=>{which}")
                })
                .collect();
            parts.sort();
            format!("ok[{}]", parts.join(", "))
        }
        Err(Error::InvalidPackageName { name, .. }) => format!("err:InvalidPackageName({name})"),
        Err(Error::PackageDoesNotExist { name, .. }) => format!("err:PackageDoesNotExist({name})"),
        Err(Error::PackageVersionDoesNotExist { name, version, .. }) => {
            format!("err:PackageVersionDoesNotExist({name}@{version})")
        }
        Err(Error::PackageNoReleases { name, .. }) => format!("err:PackageNoReleases({name})"),
        Err(e) => format!("err:other({e:?})"),
    }
}

/// The set of outcomes the model allows for a key set (see DESIGN.md section 2, oracle).
fn model_outcomes(reg: &Registry, keys: &[(String, Option<Version>)]) -> Vec<String> {
    let verdicts: Vec<Verdict> = keys.iter().map(|(n, v)| verdict(reg, n, v.as_ref())).collect();
    if let Some(i) = verdicts.iter().position(|v| *v == Verdict::InvalidName) {
        return vec![format!("err:InvalidPackageName({})", keys[i].0)];
    }
    let missing: Vec<String> = keys
        .iter()
        .zip(&verdicts)
        .filter(|(_, v)| **v == Verdict::NoPackage)
        .map(|((n, _), _)| format!("err:PackageDoesNotExist({n})"))
        .collect();
    if !missing.is_empty() {
        return missing;
    }
    let bad: Vec<String> = keys
        .iter()
        .zip(&verdicts)
        .filter_map(|((n, v), verdict)| match verdict {
            Verdict::NoVersion => Some(format!("err:PackageVersionDoesNotExist({n}@{})", v.as_ref().unwrap())),
            Verdict::NoReleases => Some(format!("err:PackageNoReleases({n})")),
            _ => None,
        })
        .collect();
    if !bad.is_empty() {
        return bad;
    }
    let mut parts: Vec<String> = keys
        .iter()
        .zip(&verdicts)
        .map(|((n, v), verdict)| {
            let key = match v {
                Some(v) => format!("{n}@{v}"),
                None => n.clone(),
            };
            match verdict {
                Verdict::Version(got) => format!("{key}=>{n}@{got}"),
                _ => unreachable!(),
            }
        })
        .collect();
    parts.sort();
    vec![format!("ok[{}]", parts.join(", "))]
}

#[tokio::main(flavor = "multi_thread", worker_threads = 2)]
async fn main() -> Result<()> {
    let root = std::env::temp_dir().join(format!("wac-fidelity-{}", std::process::id()));
    let _ = std::fs::remove_dir_all(&root);
    std::fs::create_dir_all(&root)?;
    let result = run(&root).await;
    let _ = std::fs::remove_dir_all(&root);
    match result {
        Ok(0) => {
            println!("fidelity: the reference registry agrees with the real warg client + server on every scenario");
            Ok(())
        }
        Ok(n) => {
            println!("WARNING fidelity: {n} scenario(s) disagree with the reference registry (the C20 stub may misrepresent the Warg client)");
            std::process::exit(3)
        }
        Err(e) => {
            println!("WARNING fidelity: could not run the assumption check: {e:#}");
            std::process::exit(4)
        }
    }
}

async fn run(root: &Path) -> Result<u32> {
    let shutdown = CancellationToken::new();
    let config = Config::new(
        PrivateKey::decode(OPERATOR_KEY.to_string())?,
        Some(vec![("test".to_string(), NamespaceState::Defined)]),
        root.join("server"),
    )
    .with_addr(([127, 0, 0, 1], 0))
    .with_shutdown(shutdown.clone().cancelled_owned())
    .with_checkpoint_interval(Duration::from_millis(100))
    .with_content_policy(WasmContentPolicy::default());
    let server = Server::new(config).initialize().await?;
    let addr = server.local_addr()?;
    let task = tokio::spawn(async move {
        server.serve().await.unwrap();
    });
    let config = warg_client::Config {
        home_url: Some(format!("http://{addr}")),
        registries_dir: Some(root.join("registries")),
        content_dir: Some(root.join("content")),
        namespace_map_path: Some(root.join("namespaces")),
        keyring_auth: false,
        keyring_backend: None,
        keys: Default::default(),
        ignore_federation_hints: false,
        disable_auto_accept_federation_hints: false,
        disable_auto_package_init: false,
        disable_interactive: true,
    };

    // ---- what is published (mirrored in the model) ----
    // (package, [(version, yanked)])
    let plan: Vec<(&str, Vec<(&str, bool)>)> = vec![
        ("test:a", vec![("0.1.0", false), ("1.0.0", false), ("1.1.0", true), ("2.0.0-rc.1", false)]),
        ("test:b", vec![("3.0.0-beta.2", false)]),
        ("test:c", vec![("1.0.0", true)]),
        ("test:d", vec![("0.2.0", false), ("0.10.0", false)]),
        ("test:e", vec![]),
    ];
    let mut model = Registry::default();
    let mut published: Vec<(String, String, Vec<u8>)> = Vec::new();
    for (name, releases) in &plan {
        let pname: PackageName = name.parse()?;
        let mut entries = vec![PublishEntry::Init];
        for (v, _) in releases {
            let bytes = content(name, v);
            let digest = store(&config, bytes.clone()).await?;
            published.push((name.to_string(), v.to_string(), bytes));
            entries.push(PublishEntry::Release {
                version: v.parse().unwrap(),
                content: digest,
            });
        }
        publish(&config, &pname, entries).await?;
        let yanks: Vec<PublishEntry> = releases
            .iter()
            .filter(|(_, y)| *y)
            .map(|(v, _)| PublishEntry::Yank { version: v.parse().unwrap() })
            .collect();
        if !yanks.is_empty() {
            publish(&config, &pname, yanks).await?;
        }
        model.packages.insert(
            name.to_string(),
            releases
                .iter()
                .map(|(v, y)| Release { version: v.parse().unwrap(), yanked: *y })
                .collect(),
        );
    }

    // ---- scenarios ----
    let scenarios: Vec<Vec<(&str, Option<&str>)>> = vec![
        vec![("test:a", None)],
        vec![("test:a", Some("0.1.0"))],
        vec![("test:a", Some("1.1.0"))],            // yanked exact
        vec![("test:a", Some("2.0.0-rc.1"))],       // pre-release exact
        vec![("test:a", Some("9.9.9"))],            // missing version
        vec![("test:b", None)],                      // only a pre-release: no eligible release
        vec![("test:b", Some("3.0.0-beta.2"))],
        vec![("test:c", None)],                      // only a yanked release
        vec![("test:c", Some("1.0.0"))],
        vec![("test:d", None)],                      // 0.10.0 > 0.2.0
        vec![("test:e", None)],                      // initialised, no releases
        vec![("test:zzz", None)],                    // missing package
        vec![("test:zzz", Some("1.0.0"))],
        vec![("nocolon", None)],                     // invalid name
        vec![("test:a", None), ("test:a", Some("0.1.0")), ("test:d", Some("0.2.0"))],
        vec![("test:a", Some("1.0.0")), ("test:a", Some("0.1.0")), ("test:a", None)],
        vec![("test:d", None), ("test:zzz", None)],
        vec![("test:a", Some("1.0.0")), ("test:a", Some("9.9.9"))],
    ];
    let mut disagreements = 0u32;
    for (i, sc) in scenarios.iter().enumerate() {
        let owned: Vec<(String, Option<Version>)> = sc
            .iter()
            .map(|(n, v)| (n.to_string(), v.map(|v| v.parse().unwrap())))
            .collect();
        let keys: IndexMap<BorrowedPackageKey<'_>, SourceSpan> = owned
            .iter()
            .enumerate()
            .map(|(j, (n, v))| (BorrowedPackageKey::from_name_and_version(n, v.as_ref()), SourceSpan::new((10 * j).into(), 1)))
            .collect();
        // a fresh client storage per scenario so that nothing is served from a warm cache
        let mut cfg = config.clone();
        cfg.registries_dir = Some(root.join(format!("registries-{i}")));
        cfg.content_dir = Some(root.join(format!("content-{i}")));
        cfg.namespace_map_path = Some(root.join(format!("namespaces-{i}")));
        let resolver = RegistryPackageResolver::new_with_config(None, &cfg, None).await?;
        let got = classify(&resolver.resolve(&keys).await, &published);
        let allowed = model_outcomes(&model, &owned);
        let shown: Vec<String> = sc
            .iter()
            .map(|(n, v)| match v {
                Some(v) => format!("{n}@{v}"),
                None => n.to_string(),
            })
            .collect();
        if allowed.contains(&got) {
            println!("agree    [{}] -> {got}", shown.join(", "));
        } else {
            disagreements += 1;
            println!("DISAGREE [{}] -> real: {got}; model allows: {allowed:?}", shown.join(", "));
        }
    }
    shutdown.cancel();
    let _ = task.await;
    Ok(disagreements)
}
