//! C16 — same inputs, same bytes.
//!
//! A workload W is decoded from the tape; it is then executed in several
//! simulated processes (fresh OS thread, `RandomState` keys from seam H under a
//! hash seed drawn from the tape, arena counter aligned by seam A), twice per
//! process and once on a clone of the graph. Every observation component must
//! be byte-identical across all of them. There is no model: the tree is
//! compared with itself, so only dependence on the hidden scheduler (hash
//! iteration order) can raise an alarm.

use crate::corpus::library;
use crate::engine::Run;
use crate::gen::{gen_doc, shipped_cases, DocCase};
use crate::seams::{arena_base, run_process, ProcExit, ProcSpec};
use crate::tape::{sha256_hex, Tape};
use indexmap::IndexMap;
use semver::Version;
use std::sync::Arc;
use wac_graph::{CompositionGraph, EncodeOptions, NodeId, PackageId};
use wac_types::{
    BorrowedPackageKey, DefinedType, Enum, Flags, FuncType, ItemKind, Package, PrimitiveType,
    Record, Type, ValueType, Variant,
};

pub type Obs = Vec<(String, String)>;

// ---------------------------------------------------------------------------
// Graph API histories (family G)
// ---------------------------------------------------------------------------

#[derive(Debug, Clone)]
pub enum TRef {
    Prim(u8),
    Slot(usize),
}

#[derive(Debug, Clone)]
pub enum TypeSpec {
    List(TRef),
    Option(TRef),
    Tuple(Vec<TRef>),
    Record(Vec<TRef>),
    Alias(TRef),
    Result(Option<TRef>, Option<TRef>),
    Variant(Vec<Option<TRef>>),
    Enum(u8),
    Flags(u8),
    Func(Vec<TRef>, Option<TRef>),
}

#[derive(Debug, Clone)]
pub enum KindSrc {
    TypeSlot(usize),
    PkgImport(usize, usize),
    PkgExport(usize, usize),
}

#[derive(Debug, Clone)]
pub enum Op {
    Register(usize),
    Unregister(usize),
    Define(usize, String),
    Import(String, KindSrc),
    Instantiate(usize),
    Alias(usize, usize),
    SetArg(usize, usize, usize),
    Wire(usize, usize),
    UnsetArg(usize, usize, usize),
    /// remove the k-th argument edge that an earlier `Wire` set (if it is still there)
    Unwire(usize),
    Export(usize, String),
    Unexport(usize),
    Name(usize, String),
    Remove(usize),
    /// alias and export every export of an instantiation under its own name
    ExportAll(usize),
    /// observe the graph in the middle of the history
    Snapshot,
}

#[derive(Debug, Clone)]
pub struct GraphScript {
    pub types: Vec<TypeSpec>,
    pub ops: Vec<Op>,
}

const PRIMS: &[PrimitiveType] = &[
    PrimitiveType::U8,
    PrimitiveType::S32,
    PrimitiveType::U64,
    PrimitiveType::F32,
    PrimitiveType::Bool,
    PrimitiveType::Char,
    PrimitiveType::String,
];

const IMPORT_NAMES: &[&str] = &[
    "a",
    "b",
    "c",
    "f",
    "g",
    "z",
    "my-import",
    "foo:shared/log@1.0.0",
    "foo:shared/types@1.0.0",
    "bar:util/clock",
    "other:pkg/iface",
    "x-y",
];

const EXPORT_NAMES: &[&str] = &[
    "out", "run", "a", "b", "t0", "t1", "my-export", "foo:shared/log@1.0.0", "bar:util/clock", "e1", "e2", "e3",
];

fn gen_tref(t: &mut Tape, nslots: usize, value_slots: &[usize]) -> TRef {
    if nslots > 0 && !value_slots.is_empty() && t.chance(3, 4) {
        // bias towards the first few slots so that several types share a base
        let i = if t.chance(1, 2) {
            value_slots[t.index(value_slots.len().min(2))]
        } else {
            value_slots[t.index(value_slots.len())]
        };
        TRef::Slot(i)
    } else {
        TRef::Prim(t.draw(PRIMS.len() as u64) as u8)
    }
}

pub fn gen_graph_script(t: &mut Tape, max_ops: u64) -> (GraphScript, Vec<&'static str>) {
    let mut probes = Vec::new();
    let family = t.draw(4); // 0 types-heavy, 1 wiring-heavy, 2 mixed, 3 churn (removals)
    let ntypes = match family {
        0 => t.range(2, 10),
        1 => t.draw(3),
        _ => t.draw(7),
    } as usize;
    let mut types = Vec::new();
    let mut value_slots: Vec<usize> = Vec::new();
    for i in 0..ntypes {
        let spec = match t.draw(11) {
            0 | 1 => TypeSpec::List(gen_tref(t, i, &value_slots)),
            2 => TypeSpec::Option(gen_tref(t, i, &value_slots)),
            3 => {
                let k = t.range(1, 3);
                TypeSpec::Tuple((0..k).map(|_| gen_tref(t, i, &value_slots)).collect())
            }
            4 | 5 => {
                let k = t.range(1, 3);
                TypeSpec::Record((0..k).map(|_| gen_tref(t, i, &value_slots)).collect())
            }
            6 => TypeSpec::Alias(gen_tref(t, i, &value_slots)),
            7 => TypeSpec::Result(
                if t.chance(1, 2) { Some(gen_tref(t, i, &value_slots)) } else { None },
                if t.chance(1, 2) { Some(gen_tref(t, i, &value_slots)) } else { None },
            ),
            8 => {
                let k = t.range(1, 3);
                TypeSpec::Variant(
                    (0..k)
                        .map(|_| if t.chance(1, 2) { Some(gen_tref(t, i, &value_slots)) } else { None })
                        .collect(),
                )
            }
            9 => {
                if t.chance(1, 2) {
                    TypeSpec::Enum(t.range(1, 3) as u8)
                } else {
                    TypeSpec::Flags(t.range(1, 3) as u8)
                }
            }
            _ => {
                let k = t.draw(3);
                TypeSpec::Func(
                    (0..k).map(|_| gen_tref(t, i, &value_slots)).collect(),
                    if t.chance(1, 2) { Some(gen_tref(t, i, &value_slots)) } else { None },
                )
            }
        };
        if !matches!(spec, TypeSpec::Func(..)) {
            value_slots.push(i);
        }
        types.push(spec);
    }

    let lib = library();
    let ncomp = lib.len();
    let nops = t.range(1, max_ops.max(1)) as usize;
    let mut ops = Vec::new();
    // definition order: a shuffled order of the type slots (base types may come after dependants)
    let mut define_order: Vec<usize> = (0..ntypes).collect();
    t.shuffle(&mut define_order);
    let mut define_iter = define_order.into_iter();
    let mut registered = 0usize;
    let mut instances = 0usize;
    if family == 3 && t.chance(1, 2) {
        // scripted churn: two packages with several exports each are registered, instantiated
        // and fully exported; one of them is unregistered later in the history
        let multi: Vec<usize> = (0..lib.len()).filter(|i| lib[*i].is_component && lib[*i].exports.len() >= 2).collect();
        let a = multi[t.index(multi.len())];
        let b = multi[t.index(multi.len())];
        ops.push(Op::Register(a));
        ops.push(Op::Register(b));
        ops.push(Op::Instantiate(0));
        ops.push(Op::Instantiate(1));
        if t.chance(1, 2) {
            ops.push(Op::ExportAll(0));
            ops.push(Op::ExportAll(1));
        } else {
            ops.push(Op::ExportAll(1));
            ops.push(Op::ExportAll(0));
        }
        registered += 2;
        instances += 2;
        let at_end = t.chance(1, 2);
        if !at_end {
            ops.push(Op::Unregister(t.index(2)));
        }
        probes.push("scripted_export_all_then_unregister");
        if at_end {
            // the unregister comes after the random part
            let k = t.index(2);
            let tail_marker = Op::Unregister(k);
            // remember to append it below
            ops.push(Op::Snapshot);
            ops.push(tail_marker);
        }
    }
    if (family == 1 || family == 2) && t.chance(1, 3) {
        // scripted: a provider is wired into a target, the graph is observed, the wiring is
        // taken away again and the history ends (or goes on) — in both creation orders
        const PAIRS: &[(&str, &str)] = &[
            ("test:store", "test:logger"),
            ("test:leaf-a", "test:leaf-c"),
            ("test:app", "test:logger"),
            ("test:leaf-b", "test:leaf-c"),
            ("test:mixer", "test:logger"),
        ];
        let (tn, pn) = PAIRS[t.index(PAIRS.len())];
        let find = |n: &str| lib.iter().position(|p| p.name == n).unwrap_or(0);
        ops.push(Op::Register(find(tn)));
        ops.push(Op::Register(find(pn)));
        let target_first = t.chance(1, 2);
        if target_first {
            ops.push(Op::Instantiate(0));
            ops.push(Op::Instantiate(1));
            ops.push(Op::Wire(0, 1));
        } else {
            ops.push(Op::Instantiate(1));
            ops.push(Op::Instantiate(0));
            ops.push(Op::Wire(1, 0));
        }
        registered += 2;
        instances += 2;
        if t.chance(3, 4) {
            ops.push(Op::Snapshot);
        }
        ops.push(Op::Unwire(t.index(4)));
        if t.chance(1, 2) {
            ops.push(Op::Snapshot);
        }
        probes.push("scripted_wire_observe_unwire");
    }
    let nops = if ops.iter().any(|o| matches!(o, Op::Unwire(..))) && t.chance(1, 2) { 0 } else { nops };
    for k in 0..nops {
        let pick = t.draw(24);
        let op = match (family, pick) {
            (0, 0..=11) | (2, 0..=4) | (3, 0..=3) | (1, 0) => match define_iter.next() {
                Some(slot) => Op::Define(slot, format!("t{slot}")),
                None => Op::Snapshot,
            },
            (_, 12..=14) if registered < 6 || family == 3 => {
                registered += 1;
                Op::Register(t.index(ncomp))
            }
            (_, 15..=17) if registered > 0 => {
                instances += 1;
                Op::Instantiate(t.index(64))
            }
            (_, 18) if instances >= 2 => Op::Wire(t.index(64), t.index(64)),
            (_, 19) if instances >= 1 => Op::Alias(t.index(64), t.index(8)),
            (_, 20) => {
                let name = t.pick(IMPORT_NAMES).to_string();
                let src = match t.draw(3) {
                    0 if ntypes > 0 => KindSrc::TypeSlot(t.index(ntypes)),
                    1 => KindSrc::PkgImport(t.index(64), t.index(8)),
                    _ => KindSrc::PkgExport(t.index(64), t.index(8)),
                };
                Op::Import(name, src)
            }
            (_, 21) => Op::Export(t.index(64), t.pick(EXPORT_NAMES).to_string()),
            (_, 22) => match t.draw(4) {
                0 => Op::Name(t.index(64), format!("n{k}")),
                1 => Op::Unexport(t.index(64)),
                2 => Op::SetArg(t.index(64), t.index(8), t.index(64)),
                _ => {
                    if t.chance(1, 2) {
                        Op::Unwire(t.index(8))
                    } else {
                        Op::UnsetArg(t.index(64), t.index(8), t.index(64))
                    }
                }
            },
            (3, _) => match t.draw(5) {
                0 => Op::Remove(t.index(64)),
                1 if registered > 0 => Op::Unregister(t.index(64)),
                2 | 3 if instances > 0 => Op::ExportAll(t.index(64)),
                _ => Op::Snapshot,
            },
            (1, _) | (2, _) => {
                if registered == 0 {
                    registered += 1;
                    Op::Register(t.index(ncomp))
                } else if instances < 2 || t.chance(1, 2) {
                    instances += 1;
                    Op::Instantiate(t.index(64))
                } else {
                    Op::Wire(t.index(64), t.index(64))
                }
            }
            _ => match define_iter.next() {
                Some(slot) => Op::Define(slot, format!("t{slot}")),
                None => Op::Snapshot,
            },
        };
        ops.push(op);
    }
    // the remaining definitions, so that most histories end with all types defined
    if t.chance(3, 4) {
        for slot in define_iter {
            ops.push(Op::Define(slot, format!("t{slot}")));
        }
    }

    // probes computed from the workload
    {
        let mut defined: Vec<usize> = Vec::new();
        let refs = |spec: &TypeSpec| -> Vec<usize> {
            let mut v = Vec::new();
            let mut push = |r: &TRef| {
                if let TRef::Slot(s) = r {
                    v.push(*s)
                }
            };
            match spec {
                TypeSpec::List(r) | TypeSpec::Option(r) | TypeSpec::Alias(r) => push(r),
                TypeSpec::Tuple(rs) | TypeSpec::Record(rs) => rs.iter().for_each(&mut push),
                TypeSpec::Result(a, b) => {
                    a.iter().for_each(&mut push);
                    b.iter().for_each(&mut push);
                }
                TypeSpec::Variant(cs) => cs.iter().flatten().for_each(&mut push),
                TypeSpec::Func(ps, r) => {
                    ps.iter().for_each(&mut push);
                    r.iter().for_each(&mut push);
                }
                _ => {}
            }
            v
        };
        for op in &ops {
            if let Op::Define(slot, _) = op {
                let dependants = defined.iter().filter(|d| refs(&types[**d]).contains(slot)).count();
                if dependants >= 2 {
                    probes.push("base_after_>=2_dependants");
                }
                defined.push(*slot);
            }
        }
        if ops.iter().filter(|o| matches!(o, Op::Import(..))).count() >= 2 {
            probes.push(">=2_explicit_imports");
        }
        if ops.iter().filter(|o| matches!(o, Op::Instantiate(..))).count() >= 2 {
            probes.push(">=2_same_rank_instantiations");
        }
    }
    (GraphScript { types, ops }, probes)
}

fn err_chain(e: &(dyn std::error::Error + 'static)) -> String {
    let mut s = e.to_string();
    let mut cur = e.source();
    while let Some(c) = cur {
        s.push_str(": ");
        s.push_str(&c.to_string());
        cur = c.source();
    }
    s
}

struct Interp {
    graph: CompositionGraph,
    type_slots: Vec<Type>,
    packages: Vec<PackageId>,
    nodes: Vec<NodeId>,
    instantiations: Vec<NodeId>,
    /// argument edges set by `Wire`: (target instantiation, argument name, alias node)
    wired: Vec<(NodeId, String, NodeId)>,
}

impl Interp {
    fn live_nodes(&self) -> Vec<NodeId> {
        let live: std::collections::BTreeSet<NodeId> = self.graph.node_ids().collect();
        self.nodes.iter().copied().filter(|n| live.contains(n)).collect()
    }
    fn live_insts(&self) -> Vec<NodeId> {
        let live: std::collections::BTreeSet<NodeId> = self.graph.node_ids().collect();
        self.instantiations
            .iter()
            .copied()
            .filter(|n| live.contains(n))
            .collect()
    }
}

fn vt(r: &TRef, slots: &[Type]) -> ValueType {
    match r {
        TRef::Prim(p) => ValueType::Primitive(PRIMS[*p as usize % PRIMS.len()]),
        TRef::Slot(s) => match slots.get(*s) {
            Some(Type::Value(v)) => *v,
            _ => ValueType::Primitive(PrimitiveType::U32),
        },
    }
}

/// What the query API reports, in the order it reports it: the arguments of every node
/// (empty for nodes that are not instantiations).
fn arguments_listing(g: &CompositionGraph) -> String {
    let mut out = Vec::new();
    for n in g.node_ids() {
        let args: Vec<String> = g.get_instantiation_arguments(n).map(|(name, id)| format!("{name}={id}")).collect();
        if !args.is_empty() {
            out.push(format!("{n}[{}]", args.join(",")));
        }
    }
    out.join("|")
}

fn observe_graph_state(g: &CompositionGraph, tag: &str, obs: &mut Obs) {
    let listing: Vec<String> = g
        .imports()
        .map(|(n, k, id)| format!("{n}:{}:{}", k.desc(g.types()), id.map(|i| i.to_string()).unwrap_or_default()))
        .collect();
    obs.push((format!("{tag}imports-listing"), listing.join("|")));
    obs.push((format!("{tag}arguments-listing"), arguments_listing(g)));
    obs.push((format!("{tag}dot"), sha256_hex(format!("{g:?}").as_bytes())));
    for (label, define) in [("encode-defined", true), ("encode-imported", false)] {
        let r = g.encode(EncodeOptions {
            define_components: define,
            validate: false,
            processor: None,
        });
        obs.push((
            format!("{tag}{label}"),
            match r {
                Ok(b) => format!("ok:{}:{}", b.len(), sha256_hex(&b)),
                Err(e) => format!("err:{}", err_chain(&e)),
            },
        ));
    }
    let c = g.clone();
    let r = c.encode(EncodeOptions {
        define_components: true,
        validate: false,
        processor: None,
    });
    obs.push((
        format!("{tag}clone-encode-defined"),
        match r {
            Ok(b) => format!("ok:{}:{}", b.len(), sha256_hex(&b)),
            Err(e) => format!("err:{}", err_chain(&e)),
        },
    ));
    // in-process invariants: the clone encodes to what the original encodes to, and encoding
    // the same graph again (after it has been encoded and cloned) gives the same bytes
    let again = g.encode(EncodeOptions {
        define_components: true,
        validate: false,
        processor: None,
    });
    let again = match again {
        Ok(b) => format!("ok:{}:{}", b.len(), sha256_hex(&b)),
        Err(e) => format!("err:{}", err_chain(&e)),
    };
    let first = obs
        .iter()
        .rev()
        .find(|(k, _)| *k == format!("{tag}encode-defined"))
        .map(|(_, v)| v.clone())
        .unwrap_or_default();
    let cloned = obs.last().map(|(_, v)| v.clone()).unwrap_or_default();
    obs.push((
        format!("{tag}invariant:clone-encodes-like-original"),
        if cloned == first { "holds".into() } else { format!("VIOLATED: original `{first}` clone `{cloned}`") },
    ));
    obs.push((
        format!("{tag}invariant:second-encode-like-first"),
        if again == first { "holds".into() } else { format!("VIOLATED: first `{first}` second `{again}`") },
    ));
}

/// The observations of a graph history's final state only (no `snapN:` / `op-result:` keys).
fn final_state(obs: &Obs) -> Obs {
    obs.iter()
        .filter(|(k, _)| !k.starts_with("snap") && !k.starts_with("op-result:"))
        .cloned()
        .collect()
}

pub fn observe_graph(script: &GraphScript) -> Obs {
    let lib = library();
    let mut obs: Obs = Vec::new();
    let mut it = Interp {
        graph: CompositionGraph::new(),
        type_slots: Vec::new(),
        packages: Vec::new(),
        nodes: Vec::new(),
        instantiations: Vec::new(),
        wired: Vec::new(),
    };
    // create the types (not yet defined in the graph)
    for (i, spec) in script.types.iter().enumerate() {
        let slots = it.type_slots.clone();
        let types = it.graph.types_mut();
        let ty = match spec {
            TypeSpec::List(r) => Type::Value(ValueType::Defined(types.add_defined_type(DefinedType::List(vt(r, &slots))))),
            TypeSpec::Option(r) => Type::Value(ValueType::Defined(types.add_defined_type(DefinedType::Option(vt(r, &slots))))),
            TypeSpec::Tuple(rs) => Type::Value(ValueType::Defined(
                types.add_defined_type(DefinedType::Tuple(rs.iter().map(|r| vt(r, &slots)).collect())),
            )),
            TypeSpec::Record(rs) => Type::Value(ValueType::Defined(types.add_defined_type(DefinedType::Record(Record {
                fields: rs.iter().enumerate().map(|(j, r)| (format!("f{j}"), vt(r, &slots))).collect(),
            })))),
            TypeSpec::Alias(r) => Type::Value(ValueType::Defined(types.add_defined_type(DefinedType::Alias(vt(r, &slots))))),
            TypeSpec::Result(a, b) => Type::Value(ValueType::Defined(types.add_defined_type(DefinedType::Result {
                ok: a.as_ref().map(|r| vt(r, &slots)),
                err: b.as_ref().map(|r| vt(r, &slots)),
            }))),
            TypeSpec::Variant(cs) => Type::Value(ValueType::Defined(types.add_defined_type(DefinedType::Variant(Variant {
                cases: cs
                    .iter()
                    .enumerate()
                    .map(|(j, c)| (format!("c{j}"), c.as_ref().map(|r| vt(r, &slots))))
                    .collect(),
            })))),
            TypeSpec::Enum(n) => Type::Value(ValueType::Defined(
                types.add_defined_type(DefinedType::Enum(Enum((0..*n).map(|j| format!("e{j}")).collect()))),
            )),
            TypeSpec::Flags(n) => Type::Value(ValueType::Defined(
                types.add_defined_type(DefinedType::Flags(Flags((0..*n).map(|j| format!("b{j}")).collect()))),
            )),
            TypeSpec::Func(ps, r) => Type::Func(types.add_func_type(FuncType {
                params: ps.iter().enumerate().map(|(j, r)| (format!("p{j}"), vt(r, &slots))).collect(),
                result: r.as_ref().map(|r| vt(r, &slots)),
                is_async: false,
            })),
        };
        let _ = i;
        it.type_slots.push(ty);
    }

    let mut snap = 0;
    for (k, op) in script.ops.iter().enumerate() {
        let label = format!("op{k}");
        let res: String = match op {
            Op::Register(li) => {
                let p = &lib[*li % lib.len()];
                let version = p.version.map(|v| Version::parse(v).unwrap());
                match Package::from_bytes(p.name, version.as_ref(), p.bytes.clone(), it.graph.types_mut()) {
                    Err(e) => format!("decode-err:{e:#}"),
                    Ok(pkg) => match it.graph.register_package(pkg) {
                        Ok(id) => {
                            it.packages.push(id);
                            "ok".into()
                        }
                        Err(e) => format!("err:{}", err_chain(&e)),
                    },
                }
            }
            Op::Unregister(s) => {
                if it.packages.is_empty() {
                    "skip".into()
                } else {
                    let i = *s % it.packages.len();
                    let id = it.packages.remove(i);
                    it.graph.unregister_package(id);
                    "ok".into()
                }
            }
            Op::Define(slot, name) => match it.type_slots.get(*slot) {
                None => "skip".into(),
                Some(ty) => match it.graph.define_type(name.clone(), *ty) {
                    Ok(n) => {
                        it.nodes.push(n);
                        format!("ok:{n}")
                    }
                    Err(e) => format!("err:{}", err_chain(&e)),
                },
            },
            Op::Import(name, src) => {
                let kind: Option<ItemKind> = match src {
                    KindSrc::TypeSlot(s) => it.type_slots.get(*s).map(|t| match t {
                        Type::Func(f) => ItemKind::Func(*f),
                        other => ItemKind::Type(*other),
                    }),
                    KindSrc::PkgImport(p, j) => {
                        if it.packages.is_empty() {
                            None
                        } else {
                            let id = it.packages[*p % it.packages.len()];
                            let w = &it.graph.types()[it.graph[id].ty()];
                            if w.imports.is_empty() {
                                None
                            } else {
                                w.imports.get_index(*j % w.imports.len()).map(|(_, k)| *k)
                            }
                        }
                    }
                    KindSrc::PkgExport(p, j) => {
                        if it.packages.is_empty() {
                            None
                        } else {
                            let id = it.packages[*p % it.packages.len()];
                            let w = &it.graph.types()[it.graph[id].ty()];
                            if w.exports.is_empty() {
                                None
                            } else {
                                w.exports.get_index(*j % w.exports.len()).map(|(_, k)| *k)
                            }
                        }
                    }
                };
                match kind {
                    None => "skip".into(),
                    Some(kind) => match it.graph.import(name.clone(), kind) {
                        Ok(n) => {
                            it.nodes.push(n);
                            format!("ok:{n}")
                        }
                        Err(e) => format!("err:{}", err_chain(&e)),
                    },
                }
            }
            Op::Instantiate(p) => {
                if it.packages.is_empty() {
                    "skip".into()
                } else {
                    let id = it.packages[*p % it.packages.len()];
                    let n = it.graph.instantiate(id);
                    it.nodes.push(n);
                    it.instantiations.push(n);
                    format!("ok:{n}")
                }
            }
            Op::Alias(i, e) => {
                let insts = it.live_insts();
                if insts.is_empty() {
                    "skip".into()
                } else {
                    let inst = insts[*i % insts.len()];
                    let name: Option<String> = match it.graph[inst].item_kind() {
                        ItemKind::Instance(id) => {
                            let ex = &it.graph.types()[id].exports;
                            if ex.is_empty() {
                                None
                            } else {
                                ex.get_index(*e % ex.len()).map(|(n, _)| n.clone())
                            }
                        }
                        _ => None,
                    };
                    match name {
                        None => match it.graph.alias_instance_export(inst, "no-such-export") {
                            Ok(n) => format!("ok:{n}"),
                            Err(e) => format!("err:{}", err_chain(&e)),
                        },
                        Some(name) => match it.graph.alias_instance_export(inst, &name) {
                            Ok(n) => {
                                it.nodes.push(n);
                                format!("ok:{n}")
                            }
                            Err(e) => format!("err:{}", err_chain(&e)),
                        },
                    }
                }
            }
            Op::Wire(target, provider) => {
                let insts = it.live_insts();
                if insts.len() < 2 {
                    "skip".into()
                } else {
                    let tgt = insts[*target % insts.len()];
                    let prov = insts[*provider % insts.len()];
                    if tgt == prov {
                        "skip-self".into()
                    } else {
                        let import_names: Vec<String> = match it.graph[tgt].package() {
                            Some(pid) => it.graph.types()[it.graph[pid].ty()].imports.keys().cloned().collect(),
                            None => Vec::new(),
                        };
                        let export_names: Vec<String> = match it.graph[prov].item_kind() {
                            ItemKind::Instance(id) => it.graph.types()[id].exports.keys().cloned().collect(),
                            _ => Vec::new(),
                        };
                        let mut out = Vec::new();
                        for name in import_names.iter().filter(|n| export_names.contains(n)) {
                            match it.graph.alias_instance_export(prov, name) {
                                Ok(a) => {
                                    it.nodes.push(a);
                                    match it.graph.set_instantiation_argument(tgt, name, a) {
                                        Ok(()) => {
                                            it.wired.push((tgt, name.clone(), a));
                                            out.push(format!("{name}=ok"))
                                        }
                                        Err(e) => out.push(format!("{name}=err:{}", err_chain(&e))),
                                    }
                                }
                                Err(e) => out.push(format!("{name}=alias-err:{}", err_chain(&e))),
                            }
                        }
                        format!("wired[{}]", out.join(","))
                    }
                }
            }
            Op::Unwire(k) => {
                if it.wired.is_empty() {
                    "skip".into()
                } else {
                    let (tgt, name, alias) = it.wired[*k % it.wired.len()].clone();
                    let live: std::collections::BTreeSet<NodeId> = it.graph.node_ids().collect();
                    if !live.contains(&tgt) || !live.contains(&alias) {
                        "skip-dead".into()
                    } else {
                        match it.graph.unset_instantiation_argument(tgt, &name, alias) {
                            Ok(()) => format!("unwired[{name}]"),
                            Err(e) => format!("err:{}", err_chain(&e)),
                        }
                    }
                }
            }
            Op::SetArg(i, a, n) | Op::UnsetArg(i, a, n) => {
                let insts = it.live_insts();
                let nodes = it.live_nodes();
                if insts.is_empty() || nodes.is_empty() {
                    "skip".into()
                } else {
                    let inst = insts[*i % insts.len()];
                    let node = nodes[*n % nodes.len()];
                    let import_names: Vec<String> = match it.graph[inst].package() {
                        Some(pid) => it.graph.types()[it.graph[pid].ty()].imports.keys().cloned().collect(),
                        None => Vec::new(),
                    };
                    let name = if import_names.is_empty() {
                        "no-such-arg".to_string()
                    } else {
                        import_names[*a % import_names.len()].clone()
                    };
                    let r = if matches!(op, Op::SetArg(..)) {
                        it.graph.set_instantiation_argument(inst, &name, node)
                    } else {
                        it.graph.unset_instantiation_argument(inst, &name, node)
                    };
                    match r {
                        Ok(()) => "ok".into(),
                        Err(e) => format!("err:{}", err_chain(&e)),
                    }
                }
            }
            Op::Export(n, name) => {
                let nodes = it.live_nodes();
                if nodes.is_empty() {
                    "skip".into()
                } else {
                    match it.graph.export(nodes[*n % nodes.len()], name.clone()) {
                        Ok(()) => "ok".into(),
                        Err(e) => format!("err:{}", err_chain(&e)),
                    }
                }
            }
            Op::Unexport(n) => {
                let nodes = it.live_nodes();
                if nodes.is_empty() {
                    "skip".into()
                } else {
                    match it.graph.unexport(nodes[*n % nodes.len()]) {
                        Ok(()) => "ok".into(),
                        Err(e) => format!("err:{}", err_chain(&e)),
                    }
                }
            }
            Op::Name(n, name) => {
                let nodes = it.live_nodes();
                if nodes.is_empty() {
                    "skip".into()
                } else {
                    it.graph.set_node_name(nodes[*n % nodes.len()], name.clone());
                    "ok".into()
                }
            }
            Op::Remove(n) => {
                let nodes = it.live_nodes();
                if nodes.is_empty() {
                    "skip".into()
                } else {
                    it.graph.remove_node(nodes[*n % nodes.len()]);
                    "ok".into()
                }
            }
            Op::ExportAll(i) => {
                let insts = it.live_insts();
                if insts.is_empty() {
                    "skip".into()
                } else {
                    let inst = insts[*i % insts.len()];
                    let names: Vec<String> = match it.graph[inst].item_kind() {
                        ItemKind::Instance(id) => it.graph.types()[id].exports.keys().cloned().collect(),
                        _ => Vec::new(),
                    };
                    let mut out = Vec::new();
                    for name in names {
                        match it.graph.alias_instance_export(inst, &name) {
                            Ok(a) => {
                                it.nodes.push(a);
                                match it.graph.export(a, name.clone()) {
                                    Ok(()) => out.push(format!("{name}=ok")),
                                    Err(e) => out.push(format!("{name}=err:{}", err_chain(&e))),
                                }
                            }
                            Err(e) => out.push(format!("{name}=alias-err:{}", err_chain(&e))),
                        }
                    }
                    format!("exported[{}]", out.join(","))
                }
            }
            Op::Snapshot => {
                snap += 1;
                if snap <= 2 {
                    observe_graph_state(&it.graph, &format!("snap{snap}:"), &mut obs);
                }
                "ok".into()
            }
        };
        obs.push((format!("op-result:{label}"), res));
    }
    observe_graph_state(&it.graph, "", &mut obs);
    obs
}

// ---------------------------------------------------------------------------
// Documents (family D / A)
// ---------------------------------------------------------------------------

pub fn render_diag(e: impl Into<miette::Report>, source: &str) -> String {
    use miette::{GraphicalReportHandler, GraphicalTheme, NamedSource};
    let mut s = String::new();
    let report: miette::Report = e.into();
    let report = report.with_source_code(NamedSource::new("doc.wac", source.to_string()));
    match GraphicalReportHandler::new()
        .with_cause_chain()
        .with_theme(GraphicalTheme::unicode_nocolor())
        .render_report(&mut s, report.as_ref())
    {
        Ok(()) => s,
        Err(_) => "RENDER-FAILURE".into(),
    }
}

pub fn observe_doc(case: &DocCase) -> Obs {
    let mut obs: Obs = Vec::new();
    let source = case.source.as_str();
    let doc = match wac_parser::Document::parse(source) {
        Ok(d) => d,
        Err(e) => {
            obs.push(("diagnostic:parse".into(), render_diag(e, source)));
            return obs;
        }
    };
    obs.push((
        "ast-json".into(),
        sha256_hex(serde_json::to_string(&doc).unwrap_or_default().as_bytes()),
    ));
    {
        let mut text = String::new();
        let r = wac_parser::DocumentPrinter::new(&mut text, source, None).document(&doc);
        obs.push((
            "printed-text".into(),
            match r {
                Ok(()) => sha256_hex(text.as_bytes()),
                Err(_) => "fmt-error".into(),
            },
        ));
    }
    let keys = match wac_resolver::packages(&doc) {
        Ok(k) => k,
        Err(e) => {
            obs.push(("diagnostic:discovery".into(), render_diag(e, source)));
            return obs;
        }
    };
    obs.push((
        "package-keys".into(),
        keys.keys().map(|k| k.to_string()).collect::<Vec<_>>().join(","),
    ));
    let versions: Vec<Option<Version>> = case
        .packages
        .iter()
        .map(|(_, v, _)| v.as_ref().and_then(|v| Version::parse(v).ok()))
        .collect();
    let mut packages: IndexMap<BorrowedPackageKey<'_>, Vec<u8>> = IndexMap::new();
    for key in keys.keys() {
        for (i, (name, _, bytes)) in case.packages.iter().enumerate() {
            if name == key.name && versions[i].as_ref() == key.version {
                packages.insert(*key, bytes.as_ref().clone());
                break;
            }
        }
    }
    let resolution = match doc.resolve(packages) {
        Ok(r) => r,
        Err(e) => {
            obs.push(("diagnostic:resolve".into(), render_diag(e, source)));
            return obs;
        }
    };
    obs.push((
        "dot".into(),
        sha256_hex(format!("{:?}", resolution.graph()).as_bytes()),
    ));
    let listing: Vec<String> = resolution
        .graph()
        .imports()
        .map(|(n, k, _)| format!("{n}:{}", k.desc(resolution.graph().types())))
        .collect();
    obs.push(("imports-listing".into(), listing.join("|")));
    obs.push(("arguments-listing".into(), arguments_listing(resolution.graph())));
    {
        let clone = resolution.graph().clone();
        let r = clone.encode(EncodeOptions {
            define_components: true,
            validate: false,
            processor: None,
        });
        obs.push((
            "clone-encode-defined".into(),
            match r {
                Ok(b) => format!("ok:{}:{}", b.len(), sha256_hex(&b)),
                Err(e) => format!("err:{}", err_chain(&e)),
            },
        ));
    }
    for (label, define) in [("encode-defined", true), ("encode-imported", false)] {
        let r = resolution.encode(EncodeOptions {
            define_components: define,
            validate: false,
            processor: None,
        });
        match r {
            Ok(b) => obs.push((label.into(), format!("ok:{}:{}", b.len(), sha256_hex(&b)))),
            Err(e) => obs.push((format!("diagnostic:{label}"), render_diag(e, source))),
        }
    }
    // what `wac compose` does by default: encode and validate (the diagnostic of a failed
    // validation is part of the output)
    for (label, define) in [("validated-defined", true), ("validated-imported", false)] {
        let r = resolution.encode(EncodeOptions {
            define_components: define,
            validate: true,
            processor: None,
        });
        match r {
            Ok(b) => obs.push((label.into(), format!("ok:{}:{}", b.len(), sha256_hex(&b)))),
            Err(e) => obs.push((format!("diagnostic:{label}"), render_diag(e, source))),
        }
    }
    obs
}

/// wasmparser prints resource ids with a process-global counter (`globally_unique_id: 7`).
fn mask_global_ids(s: &str) -> String {
    let mut out = String::with_capacity(s.len());
    let mut rest = s;
    let key = "globally_unique_id: ";
    while let Some(pos) = rest.find(key) {
        let (head, tail) = rest.split_at(pos + key.len());
        out.push_str(head);
        let digits = tail.chars().take_while(|c| c.is_ascii_digit()).count();
        out.push('N');
        rest = &tail[digits..];
    }
    out.push_str(rest);
    out
}

// ---------------------------------------------------------------------------
// The run
// ---------------------------------------------------------------------------

#[derive(Clone)]
enum Workload {
    Graph(Arc<GraphScript>),
    Doc(Arc<DocCase>),
}

/// Family K: the built `wac` binary as a real child process (fresh address space, ASLR on)
/// under the LD_PRELOAD getrandom shim, once per hash seed, on a freshly materialised tree.
fn run_cli_family(run: &mut Run) {
    use crate::props::c19::gen_scenario;
    let thorough = run.tier == crate::engine::Tier::Thorough;
    let t = &mut *run.tape;
    let sc = gen_scenario(t, if thorough { 16 } else { 10 });
    let nproc = if thorough { 3 } else { 2 };
    let seeds: Vec<u64> = (0..nproc).map(|_| t.draw(u64::MAX)).collect();
    let mut args = sc.cmd.args();
    // `wac resolve` prints the DOT form of the resolved graph: same scenario, other subcommand
    let mut resolve_cmd = false;
    if let crate::props::c19::Cmd::Compose(c) = &sc.cmd {
        if t.chance(1, 4) {
            resolve_cmd = true;
            args = vec!["resolve".to_string()];
            if let Some(d) = &c.deps_dir {
                args.push("--deps-dir".into());
                args.push(d.clone());
            }
            for (k, v) in &c.deps {
                args.push("--dep".into());
                args.push(format!("{k}={v}"));
            }
            args.push(c.src.clone());
        }
    }
    t.event(format!("workload K: {} [{}]", if resolve_cmd { "resolve" } else { sc.cmd.name() }, sc.label));
    t.event(format!("argv: wac {}", args.join(" ")));
    for (k, p) in &sc.faults {
        t.event(format!("disk fault {k} on {p}"));
    }
    if let Some(src) = sc.tree.files.get("src.wac") {
        for l in String::from_utf8_lossy(src).lines().take(60) {
            t.event(format!("  | {l}"));
        }
    }
    run.nontrivial = true;
    run.cover("families", "K");
    run.cover("cli_subcommands", if resolve_cmd { "resolve" } else { sc.cmd.name() });
    if let crate::props::c19::Cmd::Plug(p) = &sc.cmd {
        let stems: std::collections::BTreeSet<String> = p
            .plugs
            .iter()
            .map(|p| std::path::Path::new(p).file_stem().unwrap().to_string_lossy().to_string())
            .collect();
        if stems.len() >= 2 {
            run.probe(">=2_plug_names");
        }
    }
    let root = run.scratch.join(format!("k{}", run.index));
    let mut reference: Option<(u64, Vec<(String, String)>)> = None;
    for h in seeds {
        let _ = std::fs::remove_dir_all(&root);
        if let Err(e) = sc.tree.materialise(&root) {
            run.harness(format!("cannot materialise scratch tree: {e}"));
            return;
        }
        let child = match crate::cli::run_wac(&root, &args, h, 30) {
            Ok(c) => c,
            Err(e) => {
                run.harness(format!("cannot run the wac binary: {e}"));
                return;
            }
        };
        run.add("child_processes", 1);
        if child.timed_out {
            // an overloaded machine must not be able to produce an alarm: not judged
            run.probe("child_timeout_not_judged");
            let _ = std::fs::remove_dir_all(&root);
            return;
        }
        let outfile = sc
            .cmd
            .output()
            .map(|o| match std::fs::read(root.join(o)) {
                Ok(b) => format!("{}:{}", b.len(), sha256_hex(&b)),
                Err(_) => "absent".to_string(),
            })
            .unwrap_or_else(|| "n/a".into());
        let obs = vec![
            ("cli-exit".to_string(), format!("{:?}/{:?}/{}", child.code, child.signal, child.timed_out)),
            ("cli-stdout".to_string(), format!("{}:{}", child.stdout.len(), sha256_hex(&child.stdout))),
            ("cli-stderr".to_string(), normalise_stderr(&String::from_utf8_lossy(&child.stderr))),
            ("cli-outfile".to_string(), outfile),
        ];
        match &reference {
            None => reference = Some((h, obs)),
            Some((h0, r)) => {
                if let Some(diff) = first_difference(r, &obs) {
                    run.violate(
                        format!("differs:K:{}", diff.0),
                        format!(
                            "`wac {}`: {} differs between hash seed {h0:#x} and hash seed {h:#x} (two fresh processes, identical inputs): `{}` vs `{}`",
                            args.join(" "),
                            diff.0,
                            clip(&diff.1),
                            clip(&diff.2)
                        ),
                    );
                    let _ = std::fs::remove_dir_all(&root);
                    return;
                }
            }
        }
    }
    if let Some((_, r)) = &reference {
        run.tape.event(format!("cli observations: exit {} stdout {} outfile {}", r[0].1, r[1].1, r[3].1));
    }
    let _ = std::fs::remove_dir_all(&root);
}

fn observe(w: &Workload) -> Obs {
    match w {
        Workload::Graph(s) => observe_graph(s),
        Workload::Doc(c) => observe_doc(c),
    }
}

fn component_of(label: &str) -> String {
    // strip per-instance suffixes so that the class names the kind of output
    let l = label.split(':').collect::<Vec<_>>();
    match l.as_slice() {
        ["op-result", ..] => "op-result".into(),
        [snap, rest @ ..] if snap.starts_with("snap") => rest.join(":"),
        _ => label.to_string(),
    }
}

pub fn run(run: &mut Run) {
    // force the lazily built corpora on the worker's main thread (fixed hash seed)
    let _ = library();
    let thorough = run.tier == crate::engine::Tier::Thorough;
    let family = run.tape.draw(12);
    if family >= 10 {
        run_cli_family(run);
        return;
    }
    let t = &mut *run.tape;
    let (workload, fam_name, probes): (Workload, &str, Vec<&'static str>) = match family {
        0..=4 => {
            let (s, p) = gen_graph_script(t, if thorough { 40 } else { 30 });
            (Workload::Graph(Arc::new(s)), "G", p)
        }
        5..=7 => {
            let c = gen_doc(t, if thorough { 30 } else { 20 });
            let p = c.probes.clone();
            (Workload::Doc(Arc::new(c)), "D", p)
        }
        _ => {
            // shipped documents and the hand-written ones (a fixed pool)
            static POOL: std::sync::OnceLock<Vec<crate::gen::DocCase>> = std::sync::OnceLock::new();
            let cases = POOL.get_or_init(|| {
                let mut v = shipped_cases().clone();
                v.extend(crate::gen::handwritten_cases());
                // a composition whose validated encoding fails with a message that names a
                // resource id (C16-only: it does not validate, so it is no enumeration seed)
                let mut extra = crate::gen::handwritten_cases().remove(0);
                extra.label = "doc:validation-message-with-resource-id".into();
                extra.source = "package test:doc-global-id;\nlet i1 = new odd:res-share { ... };\nlet i2 = new odd:res-share { \"x:y/b@1.0.0\": i1[\"q:r/a@0.2.1\"], ... };\n".into();
                v.push(extra);
                v
            });
            let c = cases[t.index(cases.len())].clone();
            (Workload::Doc(Arc::new(c)), "S", Vec::new())
        }
    };
    let nproc = if thorough { 6 } else { 3 };
    let seeds: Vec<u64> = (0..nproc).map(|_| t.draw(u64::MAX)).collect();
    match &workload {
        Workload::Graph(s) => {
            t.event(format!("workload G: {} types, {} ops", s.types.len(), s.ops.len()));
            for (i, ty) in s.types.iter().enumerate() {
                t.event(format!("  type slot {i}: {ty:?}"));
            }
            for (i, op) in s.ops.iter().enumerate() {
                t.event(format!("  op{i}: {op:?}"));
            }
        }
        Workload::Doc(c) => {
            t.event(format!("workload {fam_name}: {} ({} bytes)", c.label, c.source.len()));
            if fam_name == "D" {
                for l in c.source.lines() {
                    t.event(format!("  | {l}"));
                }
            }
        }
    }
    for p in probes {
        run.probe(p);
    }
    run.nontrivial = true;
    run.cover("families", fam_name);

    let mut reference: Option<(u64, &'static str, Obs)> = None;
    let mut canary = std::collections::BTreeSet::new();
    for (j, h) in seeds.iter().enumerate() {
        let w = workload.clone();
        let spec = ProcSpec {
            hash_seed: *h,
            arena_base: Some(arena_base(run.index, j as u32)),
            stack_bytes: 8 << 20,
        };
        let out = run_process(spec, move || {
            let mut m = std::collections::HashMap::new();
            for i in 0..8u32 {
                m.insert(i, ());
            }
            let canary: String = m.keys().map(|k| format!("{k}")).collect();
            let mut first = observe(&w);
            let mut second = observe(&w);
            // observing a graph in the middle of its history must not change where the
            // history ends: the same history without the mid-history observations, in the
            // same process, ends in the same state
            if let Workload::Graph(s) = &w {
                if s.ops.iter().any(|o| matches!(o, Op::Snapshot)) {
                    let stripped = GraphScript {
                        types: s.types.clone(),
                        ops: s.ops.iter().filter(|o| !matches!(o, Op::Snapshot)).cloned().collect(),
                    };
                    let quiet = final_state(&observe_graph(&stripped));
                    let loud = final_state(&first);
                    let verdict = match first_difference(&loud, &quiet) {
                        None => "holds".to_string(),
                        Some(d) => format!("VIOLATED: `{}` is `{}` with and `{}` without mid-history observation", d.0, clip(&d.1), clip(&d.2)),
                    };
                    first.push(("invariant:observation-does-not-perturb".into(), verdict.clone()));
                    second.push(("invariant:observation-does-not-perturb".into(), verdict));
                }
            }
            (canary, first, second)
        });
        let (first, second) = match out {
            Err(e) => {
                run.harness(e);
                return;
            }
            Ok(ProcExit::Panic(p)) => {
                // a panic is an observation like any other (C16 only asks for sameness)
                let o: Obs = vec![("panic".into(), format!("{}: {}", p.location, p.message))];
                (o.clone(), o)
            }
            Ok(ProcExit::Ok((c, a, b))) => {
                canary.insert(c);
                (a, b)
            }
        };
        run.add("simulated_processes", 1);
        run.add("observations_compared", (first.len() + second.len()) as u64);
        if let Some((k, v)) = first.iter().chain(second.iter()).find(|(k, v)| k.contains("invariant:") && v.starts_with("VIOLATED")) {
            let name = k.rsplit("invariant:").next().unwrap_or("").to_string();
            run.violate(
                format!("differs:{fam_name}:in-process:{name}"),
                format!("in one process (hash seed {h:#x}) `{k}`: {}", clip(v)),
            );
            run.tape.event(format!("IN-PROCESS DIFFERENCE at {k}"));
            return;
        }
        for (which, obs) in [("fresh-process", first), ("same-process-repeat", second)] {
            match &reference {
                None => reference = Some((*h, which, obs)),
                Some((h0, which0, r)) => {
                    if let Some(diff) = first_difference(r, &obs) {
                        let comp = component_of(&diff.0);
                        // a difference that is only wasmparser's process-global resource id
                        // inside a validation message is its own class (one class for all
                        // workload families and encode modes)
                        let global_id_only = diff.1 != diff.2 && mask_global_ids(&diff.1) == mask_global_ids(&diff.2);
                        run.violate(
                            if global_id_only {
                                "differs:validation-message:wasmparser-global-resource-id".to_string()
                            } else {
                                format!("differs:{fam_name}:{comp}")
                            },
                            format!(
                                "observation `{}` differs between hash seed {h0:#x} ({which0}) and hash seed {h:#x} ({which}): `{}` vs `{}`",
                                diff.0,
                                clip(&diff.1),
                                clip(&diff.2)
                            ),
                        );
                        run.tape.event(format!("DIFFERENCE at {}", diff.0));
                        return;
                    }
                }
            }
        }
    }
    run.add("canary_orders", canary.len() as u64);
    if let Some((_, _, r)) = &reference {
        for (k, _) in r.iter().take(200) {
            run.cover("observation_components", component_of(k));
        }
        let digest = sha256_hex(
            r.iter()
                .map(|(k, v)| format!("{k}={v}\n"))
                .collect::<String>()
                .as_bytes(),
        );
        run.tape.event(format!("observations {} digest {digest}", r.len()));
    }
}

/// A panic message names the OS thread id (`thread 'main' (4520) panicked`), which differs
/// between processes for reasons that have nothing to do with the inputs; mask it.
fn normalise_stderr(s: &str) -> String {
    let mut out = String::with_capacity(s.len());
    let mut rest = s;
    while let Some(pos) = rest.find("thread '") {
        let (head, tail) = rest.split_at(pos);
        out.push_str(head);
        // tail = "thread '<name>' (<digits>) …"
        if let Some(q) = tail["thread '".len()..].find("' (") {
            let after = &tail["thread '".len() + q + 3..];
            let digits = after.chars().take_while(|c| c.is_ascii_digit()).count();
            if digits > 0 && after[digits..].starts_with(')') {
                out.push_str(&tail[.."thread '".len() + q + 3]);
                out.push('N');
                rest = &after[digits..];
                continue;
            }
        }
        out.push_str("thread '");
        rest = &tail["thread '".len()..];
    }
    out.push_str(rest);
    out
}

fn clip(s: &str) -> String {
    let s = s.replace('\n', "⏎");
    if s.chars().count() > 300 {
        let cut: String = s.chars().take(300).collect();
        format!("{cut}…")
    } else {
        s
    }
}

fn first_difference(a: &Obs, b: &Obs) -> Option<(String, String, String)> {
    for (i, (k, v)) in a.iter().enumerate() {
        match b.get(i) {
            None => return Some((k.clone(), v.clone(), "<absent>".into())),
            Some((k2, v2)) => {
                if k != k2 {
                    return Some((k.clone(), format!("component {k}"), format!("component {k2}")));
                }
                if v != v2 {
                    return Some((k.clone(), v.clone(), v2.clone()));
                }
            }
        }
    }
    if b.len() > a.len() {
        let (k, v) = &b[a.len()];
        return Some((k.clone(), "<absent>".into(), v.clone()));
    }
    None
}
