//! C18 — file-system dependency lookup follows the documented layout and precedence.
//!
//! The simulator owns the disk (seam D): an in-memory model of a small directory tree
//! decides the state of every candidate path (absent / file / directory / valid / garbage),
//! the tree is materialised on tmpfs, the real `FileSystemPackageResolver::resolve` runs on
//! it (built in three feature variants), and the result is compared with an executable
//! model of the documented lookup (README.md + doc comments of fs.rs). Cells the
//! documentation leaves open are executed, must not panic, and are not judged.
//! No schedule or clock is involved and none is claimed.

use crate::cli::Tree;
use crate::corpus::library;
use crate::engine::Run;
use crate::seams::{run_process, ProcExit, ProcSpec};
use crate::tape::Tape;
use indexmap::IndexMap;
use miette::SourceSpan;
use semver::Version;
use std::collections::HashMap;
use std::path::{Path, PathBuf};
use wac_resolver::{Error, FileSystemPackageResolver};
use wac_types::BorrowedPackageKey;

pub const HAS_WIT: bool = cfg!(feature = "wit");
pub const HAS_WAT: bool = cfg!(feature = "wat");

pub fn build_name() -> &'static str {
    match (HAS_WIT, HAS_WAT) {
        (false, false) => "none",
        (true, false) => "wit",
        (true, true) => "wit+wat",
        (false, true) => "wat",
    }
}

const NAMES: &[&str] = &["solo", "ns:pkg", "ns:other", "a:b:c", "x:y"];
const VERSIONS: &[&str] = &["1.0.0", "0.3.1-rc.1", "1.2.3+b.7", "1.2.3"];

const WIT_OK: &str = "package ns:pkg;\ninterface i { f: func(); }\nworld w { export i; }\n";
const WIT_BAD: &str = "package ns:pkg;\ninterface i { f: func( }\n";
/// A WIT package that refers to another package stored under its own `deps/`.
const WIT_DEPS_MAIN: &str = "package ns:pkg;\ninterface i { use dep:types/api.{t}; f: func() -> t; }\nworld w { import dep:types/api; export i; }\n";
const WIT_DEPS_TYPES: &str = "package dep:types;\ninterface api { type t = u32; g: func() -> t; }\n";

#[derive(Debug, Clone, PartialEq)]
enum Outcome {
    Bytes(Vec<u8>),
    Missing,
    Fail,
    /// WIT directory / file: expectation computed from the materialised tree with wit-parser
    WitDir(String),
    WitFile(String),
    NotJudged(&'static str),
}

#[derive(Debug, Clone)]
struct KeySpec {
    name: String,
    version: Option<Version>,
    span: SourceSpan,
}

impl KeySpec {
    fn show(&self) -> String {
        match &self.version {
            Some(v) => format!("{}@{}", self.name, v),
            None => self.name.clone(),
        }
    }
}

fn is_dir(tree: &Tree, p: &str) -> bool {
    if tree.dirs.contains(p) {
        return true;
    }
    let prefix = format!("{p}/");
    tree.files.keys().any(|f| f.starts_with(&prefix))
        || tree.dirs.iter().any(|d| d.starts_with(&prefix))
        || tree.links.keys().any(|l| l.starts_with(&prefix))
}

fn is_file(tree: &Tree, p: &str) -> bool {
    // symbolic links are followed (std::path::Path::is_file semantics)
    match tree.links.get(p) {
        Some(target) => tree.files.contains_key(target),
        None => tree.files.contains_key(p),
    }
}

fn file_bytes<'a>(tree: &'a Tree, p: &str) -> &'a Vec<u8> {
    match tree.links.get(p) {
        Some(target) => &tree.files[target],
        None => &tree.files[p],
    }
}

fn assemble(text_or_binary: &[u8]) -> Result<Vec<u8>, ()> {
    match wat::parse_bytes(text_or_binary) {
        Ok(b) => Ok(b.into_owned()),
        Err(_) => Err(()),
    }
}

/// The documented lookup, evaluated on the model tree.
fn expect_key(tree: &Tree, root: &str, key: &KeySpec, overrides: &HashMap<String, String>) -> (Outcome, &'static str) {
    if let (Some(path), None) = (overrides.get(&key.name), &key.version) {
        if is_dir(tree, path) {
            return (Outcome::NotJudged("override-is-directory"), "override-directory");
        }
        if !is_file(tree, path) {
            return (Outcome::Fail, "override-absent");
        }
        let bytes = tree.files[path].clone();
        let ext = Path::new(path).extension().and_then(|e| e.to_str()).unwrap_or("");
        return match ext {
            "wit" if HAS_WIT => (Outcome::WitFile(path.clone()), "override-file-wit"),
            "wit" => (Outcome::NotJudged("wit-override-without-wit-support"), "override-file-wit-nosupport"),
            "wat" if HAS_WAT => match assemble(&bytes) {
                Ok(b) => (Outcome::Bytes(b), "override-file-wat"),
                Err(()) => (Outcome::Fail, "override-file-wat-bad"),
            },
            "wat" => (Outcome::NotJudged("wat-override-without-text-support"), "override-file-wat-nosupport"),
            _ => (Outcome::Bytes(bytes), "override-file"),
        };
    }
    let mut base = String::from(root);
    for seg in key.name.split(':') {
        base.push('/');
        base.push_str(seg);
    }
    if let Some(v) = &key.version {
        base.push('/');
        base.push_str(&v.to_string());
    }
    if is_dir(tree, &base) {
        return if HAS_WIT {
            (Outcome::WitDir(base), "base-dir-wit")
        } else {
            // without WIT support a directory is never a package
            (Outcome::Missing, "base-dir-nowit")
        };
    }
    let wat_path = format!("{base}.wat");
    let wasm_path = format!("{base}.wasm");
    if HAS_WAT {
        if is_dir(tree, &wat_path) {
            return (Outcome::NotJudged("wat-path-is-directory"), "wat-directory");
        }
        if is_file(tree, &wat_path) {
            return match assemble(&tree.files[&wat_path]) {
                Ok(b) => (Outcome::Bytes(b), "wat-file"),
                Err(()) => (Outcome::Fail, "wat-file-bad"),
            };
        }
    }
    if is_dir(tree, &wasm_path) {
        return (Outcome::NotJudged("wasm-path-is-directory"), "wasm-directory");
    }
    if is_file(tree, &wasm_path) {
        return (Outcome::Bytes(file_bytes(tree, &wasm_path).clone()), "wasm-file");
    }
    (Outcome::Missing, "missing")
}

fn wit_encode(path: &Path, is_dir: bool) -> Result<Vec<u8>, ()> {
    let mut resolve = wit_parser::Resolve::new();
    let pkg = if is_dir {
        resolve.push_dir(path).map_err(|_| ())?.0
    } else {
        resolve.push_file(path).map_err(|_| ())?
    };
    wit_component::encode(&resolve, pkg).map_err(|_| ())
}

#[derive(Debug)]
enum Got {
    Ok(Vec<(String, Option<Version>, Vec<u8>)>),
    Unknown(String, SourceSpan),
    Failure(String, SourceSpan),
    Other(String),
}

/// A structural choice: preset in enumeration runs, drawn otherwise; always on the tape.
fn choose(t: &mut Tape, n: u64, presets: &mut Option<std::vec::IntoIter<u64>>) -> u64 {
    match presets.as_mut().and_then(|p| p.next()) {
        Some(v) => t.draw_preset(n, v),
        None => t.draw(n),
    }
}

const ENUM_NAMES: [u64; 3] = [0, 1, 3]; // "solo", "ns:pkg", "a:b:c"
const ENUM_BASE: [u64; 5] = [0, 1, 2, 3, 4];
const ENUM_WASM: [u64; 4] = [0, 4, 6, 7];
const ENUM_WAT: [u64; 5] = [0, 4, 6, 8, 9];
const ENUM_OVERRIDE: [u64; 7] = [0, 1, 2, 3, 4, 5, 11];

/// Single-key decision-table cells per build: mode x name shape x (unversioned | 4 versions x decoy)
/// x base x wasm x wat x override.
pub const CELLS_PER_BUILD: u64 = 2 * 3 * (1 + 4 * 2) * 5 * 4 * 5 * 7;
pub const BUILDS: u64 = 3;

fn presets_for_cell(mut c: u64) -> Vec<u64> {
    let mut take = |n: u64| {
        let d = c % n;
        c /= n;
        d
    };
    let mode = take(2);
    let name = ENUM_NAMES[take(3) as usize];
    let ver = take(9); // 0 = unversioned; 1..=8 = version (ver-1)/2, decoy (ver-1)%2
    let base = ENUM_BASE[take(5) as usize];
    let wasm = ENUM_WASM[take(4) as usize];
    let wat = ENUM_WAT[take(5) as usize];
    let ov = ENUM_OVERRIDE[take(7) as usize];
    let mut p = vec![mode, 0 /* one key */, name];
    if ver == 0 {
        p.push(0);
    } else {
        p.push(1);
        p.push((ver - 1) / 2);
    }
    p.extend([base, wasm, wat]);
    if ver != 0 {
        p.push((ver - 1) % 2);
    }
    p.push(ov);
    p
}

pub fn run(run: &mut Run) {
    let lib = library();
    // one run in eight lives under a directory whose name is not valid UTF-8 (legal on Unix):
    // paths must be built from OsStr pieces, never through lossy string conversion
    let root_dir = if run.index % 8 == 5 {
        use std::os::unix::ffi::OsStringExt;
        let mut name = format!("c18-{}-", run.index).into_bytes();
        name.extend_from_slice(b"\xff\xfe");
        run.scratch.join(std::ffi::OsString::from_vec(name))
    } else {
        run.scratch.join(format!("c18-{}", run.index))
    };
    if run.index % 8 == 5 {
        run.fault("non_utf8_directory_name");
    }
    let _ = std::fs::remove_dir_all(&root_dir);
    let t: &mut Tape = &mut *run.tape;

    let comp = |t: &mut Tape| -> Vec<u8> { lib[t.index(12)].bytes.clone() };
    let garbage = |t: &mut Tape| -> Vec<u8> {
        let n = t.index(40);
        (0..n).map(|_| t.draw(256) as u8).collect()
    };

    let enumerated = run.index < CELLS_PER_BUILD * BUILDS;
    let mut presets: Option<std::vec::IntoIter<u64>> = if enumerated {
        Some(presets_for_cell(run.index / BUILDS).into_iter())
    } else {
        None
    };
    let presets = &mut presets;
    let error_on_unknown = choose(t, 2, presets) >= 1;
    let deps = "deps";
    let mut tree = Tree::default();
    tree.dir(deps);
    let nkeys = 1 + choose(t, 3, presets) as usize;
    let mut keys: Vec<KeySpec> = Vec::new();
    let mut overrides: HashMap<String, String> = HashMap::new();
    let mut cells: Vec<String> = Vec::new();
    let mut attempts = 0;
    while keys.len() < nkeys && attempts < 12 {
        attempts += 1;
        let name = if !keys.is_empty() && t.chance(1, 3) {
            keys[t.index(keys.len())].name.clone()
        } else {
            NAMES[choose(t, NAMES.len() as u64, presets) as usize].to_string()
        };
        let version = if choose(t, 2, presets) >= 1 {
            Some(Version::parse(VERSIONS[choose(t, VERSIONS.len() as u64, presets) as usize]).unwrap())
        } else {
            None
        };
        if keys.iter().any(|k| k.name == name && k.version == version) {
            continue;
        }
        let i = keys.len();
        let key = KeySpec {
            name: name.clone(),
            version: version.clone(),
            span: SourceSpan::new((7 * i + 1).into(), i + 2),
        };
        // ---- state of the candidate paths for this key ----
        let mut base = String::from(deps);
        for seg in name.split(':') {
            base.push('/');
            base.push_str(seg);
        }
        if let Some(v) = &version {
            base.push('/');
            base.push_str(&v.to_string());
        }
        let base_state = choose(t, 8, presets);
        let base_label = match base_state {
            0 => {
                tree.file(format!("{base}/pkg.wit"), WIT_OK.as_bytes().to_vec());
                "dir-wit-ok"
            }
            1 => {
                tree.dir(base.clone());
                "dir-empty"
            }
            2 => {
                tree.file(format!("{base}/pkg.wit"), WIT_BAD.as_bytes().to_vec());
                "dir-wit-bad"
            }
            4 => {
                tree.file(format!("{base}/pkg.wit"), WIT_DEPS_MAIN.as_bytes().to_vec());
                if t.chance(1, 2) {
                    tree.file(format!("{base}/deps/types/types.wit"), WIT_DEPS_TYPES.as_bytes().to_vec());
                } else {
                    tree.file(format!("{base}/deps/types.wit"), WIT_DEPS_TYPES.as_bytes().to_vec());
                }
                "dir-wit-with-deps"
            }
            _ => "absent",
        };
        let wasm_label = match choose(t, 12, presets) {
            0..=3 => {
                let b = comp(t);
                tree.file(format!("{base}.wasm"), b);
                "component"
            }
            4 | 5 => {
                let b = garbage(t);
                tree.file(format!("{base}.wasm"), b);
                "garbage"
            }
            6 => {
                tree.dir(format!("{base}.wasm"));
                "directory"
            }
            7 if !enumerated => {
                // a symbolic link to a component stored elsewhere
                let b = comp(t);
                let target = format!("store/linked{i}.wasm");
                tree.file(target.clone(), b);
                tree.link(format!("{base}.wasm"), target);
                "symlink"
            }
            8 if !enumerated => {
                tree.link(format!("{base}.wasm"), format!("store/nowhere{i}.wasm"));
                "dangling-symlink"
            }
            _ => "absent",
        };
        let wat_label = match choose(t, 16, presets) {
            0..=3 => {
                let b = comp(t);
                let text = wasmprinter::print_bytes(&b).unwrap_or_default();
                tree.file(format!("{base}.wat"), text.into_bytes());
                "text-ok"
            }
            4 | 5 => {
                let b = comp(t);
                tree.file(format!("{base}.wat"), b);
                "binary"
            }
            6 | 7 => {
                tree.file(format!("{base}.wat"), b"(component (import".to_vec());
                "text-bad"
            }
            8 => {
                tree.dir(format!("{base}.wat"));
                "directory"
            }
            _ => "absent",
        };
        // decoy where `Path::set_extension` would look (replacing the version's last component)
        let mut decoy_label = "none";
        if version.is_some() && choose(t, 2, presets) >= 1 {
            let p = PathBuf::from(&base);
            for ext in ["wasm", "wat"] {
                let mut d = p.clone();
                d.set_extension(ext);
                let d = d.to_string_lossy().to_string();
                if d != format!("{base}.{ext}") && !tree.files.contains_key(&d) && !is_dir(&tree, &d) {
                    let b = comp(t);
                    let content = if ext == "wat" {
                        wasmprinter::print_bytes(&b).unwrap_or_default().into_bytes()
                    } else {
                        b
                    };
                    tree.file(d, content);
                    decoy_label = "present";
                }
            }
        }
        // override
        let override_label = match choose(t, 20, presets) {
            0 | 6 => {
                let p = format!("over/o{i}.wasm");
                let b = comp(t);
                tree.file(p.clone(), b);
                overrides.insert(name.clone(), p);
                "file-wasm"
            }
            1 | 7 => {
                let p = format!("over/o{i}.wat");
                let b = comp(t);
                tree.file(p.clone(), wasmprinter::print_bytes(&b).unwrap_or_default().into_bytes());
                overrides.insert(name.clone(), p);
                "file-wat"
            }
            2 | 8 => {
                let p = format!("over/o{i}.wit");
                tree.file(p.clone(), WIT_OK.as_bytes().to_vec());
                overrides.insert(name.clone(), p);
                "file-wit"
            }
            3 | 9 => {
                overrides.insert(name.clone(), format!("over/dangling{i}.wasm"));
                "dangling"
            }
            4 => {
                let p = format!("over/dir{i}");
                tree.dir(p.clone());
                overrides.insert(name.clone(), p);
                "directory"
            }
            5 | 10 => {
                let p = format!("over/g{i}.wasm");
                let b = garbage(t);
                tree.file(p.clone(), b);
                overrides.insert(name.clone(), p);
                "file-garbage"
            }
            _ => {
                if overrides.contains_key(&name) {
                    "inherited"
                } else {
                    "none"
                }
            }
        };
        let vkind = match &version {
            None => "unversioned",
            Some(v) if !v.pre.is_empty() => "pre-release",
            Some(v) if !v.build.is_empty() => "build-metadata",
            Some(_) => "release",
        };
        cells.push(format!(
            "{}|{}|segs{}|{vkind}|ov:{override_label}|base:{base_label}|wasm:{wasm_label}|wat:{wat_label}|decoy:{decoy_label}|pos{i}",
            build_name(),
            if error_on_unknown { "error" } else { "skip" },
            name.split(':').count()
        ));
        keys.push(key);
    }
    t.shuffle(&mut keys);

    // ---- model ----
    let outcomes: Vec<(Outcome, &'static str)> = keys
        .iter()
        .map(|k| expect_key(&tree, deps, k, &overrides))
        .collect();

    t.event(format!(
        "build={} mode={} keys=[{}] overrides={:?}",
        build_name(),
        if error_on_unknown { "error-on-unknown" } else { "skip-unknown" },
        keys.iter().map(|k| k.show()).collect::<Vec<_>>().join(", "),
        {
            let mut o: Vec<_> = overrides.iter().collect();
            o.sort();
            o
        }
    ));
    for (p, b) in &tree.files {
        t.event(format!("  file {p} ({} bytes)", b.len()));
    }
    for d in &tree.dirs {
        t.event(format!("  dir  {d}"));
    }
    for (l, target) in &tree.links {
        t.event(format!("  link {l} -> {target}"));
    }
    for (k, (o, row)) in keys.iter().zip(outcomes.iter()) {
        let o = match o {
            Outcome::Bytes(b) => format!("bytes({})", b.len()),
            other => format!("{other:?}"),
        };
        t.event(format!("  expect {} -> {row}: {o}", k.show()));
    }
    run.cover("modes", if enumerated { "enumerated-single-key-cell" } else { "sampled-multi-key" });
    if enumerated {
        run.add("enumerated_cells", 1);
    }
    for c in &cells {
        for (needle, kind) in [
            ("wasm:garbage", "garbage_file"),
            ("ov:file-garbage", "garbage_file"),
            ("ov:dangling", "dangling_override"),
            ("ov:directory", "dir_in_place_of_file"),
            ("wasm:directory", "dir_in_place_of_file"),
            ("wat:directory", "dir_in_place_of_file"),
            ("base:dir-wit-bad", "invalid_wit"),
            ("base:dir-empty", "empty_dir"),
            ("wat:text-bad", "invalid_text"),
            ("wat:binary", "binary_in_text_file"),
            ("decoy:present", "decoy_at_set_extension_path"),
            ("wasm:symlink", "symlink_in_place_of_file"),
            ("wasm:dangling-symlink", "dangling_symlink"),
        ] {
            if c.contains(needle) {
                run.fault(kind);
            }
        }
        run.cover("cells", c.clone());
    }
    for (_, row) in &outcomes {
        run.cover("rows", format!("{}:{}", build_name(), row));
    }
    run.nontrivial = true;

    if let Err(e) = tree.materialise(&root_dir) {
        run.harness(format!("cannot materialise: {e}"));
        return;
    }

    // ---- real resolver on the simulated disk ----
    let key_specs = keys.clone();
    let root2 = root_dir.clone();
    let ov2: HashMap<String, PathBuf> = overrides
        .iter()
        .map(|(k, v)| (k.clone(), root_dir.join(v)))
        .collect();
    let got = run_process(ProcSpec::new(0x18), move || {
        let map: IndexMap<BorrowedPackageKey<'_>, SourceSpan> = key_specs
            .iter()
            .map(|k| (BorrowedPackageKey::from_name_and_version(&k.name, k.version.as_ref()), k.span))
            .collect();
        let resolver = FileSystemPackageResolver::new(root2.join("deps"), ov2, error_on_unknown);
        match resolver.resolve(&map) {
            Ok(m) => Got::Ok(
                m.into_iter()
                    .map(|(k, b)| (k.name.to_string(), k.version.cloned(), b))
                    .collect(),
            ),
            Err(Error::UnknownPackage { name, span }) => Got::Unknown(name, span),
            Err(Error::PackageResolutionFailure { name, span, .. }) => Got::Failure(name, span),
            Err(e) => Got::Other(format!("{e:?}")),
        }
    });
    let got = match got {
        Ok(ProcExit::Ok(g)) => g,
        Ok(ProcExit::Panic(p)) => {
            run.violate(
                p.class(),
                format!("FileSystemPackageResolver::resolve panicked at {}: {}", p.location, p.message),
            );
            let _ = std::fs::remove_dir_all(&root_dir);
            return;
        }
        Err(e) => {
            run.harness(e);
            return;
        }
    };

    // ---- compose the expectation left to right ----
    if outcomes.iter().any(|(o, _)| matches!(o, Outcome::NotJudged(_))) {
        run.probe("runs_with_unjudged_cell");
        run.tape.event("not judged (a cell the documentation leaves open); no panic".to_string());
        let _ = std::fs::remove_dir_all(&root_dir);
        return;
    }
    let mut expected_ok: Vec<(usize, Vec<u8>)> = Vec::new();
    let mut expected_err: Option<(usize, &'static str)> = None;
    for (i, (o, _row)) in outcomes.iter().enumerate() {
        match o {
            Outcome::Bytes(b) => expected_ok.push((i, b.clone())),
            Outcome::WitDir(p) => match wit_encode(&root_dir.join(p), true) {
                Ok(b) => expected_ok.push((i, b)),
                Err(()) => {
                    expected_err = Some((i, "failure"));
                    break;
                }
            },
            Outcome::WitFile(p) => match wit_encode(&root_dir.join(p), false) {
                Ok(b) => expected_ok.push((i, b)),
                Err(()) => {
                    expected_err = Some((i, "failure"));
                    break;
                }
            },
            Outcome::Fail => {
                expected_err = Some((i, "failure"));
                break;
            }
            Outcome::Missing => {
                if error_on_unknown {
                    expected_err = Some((i, "unknown"));
                    break;
                }
            }
            Outcome::NotJudged(_) => unreachable!(),
        }
    }
    let keys_s = keys.iter().map(|k| k.show()).collect::<Vec<_>>().join(", ");
    match (&expected_err, &got) {
        (Some((i, "unknown")), Got::Unknown(name, span)) => {
            if *name != keys[*i].name || *span != keys[*i].span {
                run.violate(
                    format!("cell:{}:unknown-names-wrong-key", outcomes[*i].1),
                    format!("UnknownPackage names `{name}`@{span:?}, expected `{}`@{:?}; keys [{keys_s}]", keys[*i].name, keys[*i].span),
                );
            }
        }
        (Some((i, "failure")), Got::Failure(name, span)) => {
            if *name != keys[*i].name || *span != keys[*i].span {
                run.violate(
                    format!("cell:{}:failure-names-wrong-key", outcomes[*i].1),
                    format!("PackageResolutionFailure names `{name}`@{span:?}, expected `{}`@{:?}; keys [{keys_s}]", keys[*i].name, keys[*i].span),
                );
            }
        }
        (Some((i, what)), other) => {
            let g = match other {
                Got::Ok(m) => format!("Ok({} packages)", m.len()),
                Got::Unknown(n, _) => format!("UnknownPackage({n})"),
                Got::Failure(n, _) => format!("PackageResolutionFailure({n})"),
                Got::Other(e) => e.clone(),
            };
            let gk = match other {
                Got::Ok(_) => "ok",
                Got::Unknown(..) => "unknown",
                Got::Failure(..) => "failure",
                Got::Other(_) => "other",
            };
            run.violate(
                format!("cell:{}:{what}≠{gk}", outcomes[*i].1),
                format!(
                    "key `{}` ({}): the documented lookup gives {what}, the resolver returned {g}; keys [{keys_s}]",
                    keys[*i].show(),
                    outcomes[*i].1
                ),
            );
        }
        (None, Got::Ok(m)) => {
            for (i, want) in &expected_ok {
                let k = &keys[*i];
                match m.iter().find(|(n, v, _)| *n == k.name && *v == k.version) {
                    None => {
                        run.violate(
                            format!("cell:{}:found≠absent", outcomes[*i].1),
                            format!("key `{}` ({}) should be found but is absent from the result; keys [{keys_s}]", k.show(), outcomes[*i].1),
                        );
                        break;
                    }
                    Some((_, _, bytes)) => {
                        if bytes != want {
                            run.violate(
                                format!("cell:{}:wrong-bytes", outcomes[*i].1),
                                format!(
                                    "key `{}` ({}): returned {} bytes, the documented lookup gives {} bytes (first difference at {}); keys [{keys_s}]",
                                    k.show(),
                                    outcomes[*i].1,
                                    bytes.len(),
                                    want.len(),
                                    bytes.iter().zip(want.iter()).position(|(a, b)| a != b).unwrap_or(bytes.len().min(want.len()))
                                ),
                            );
                            break;
                        }
                    }
                }
            }
            if run.violation.is_none() && m.len() != expected_ok.len() {
                let extra: Vec<String> = m
                    .iter()
                    .filter(|(n, v, _)| !expected_ok.iter().any(|(i, _)| keys[*i].name == *n && keys[*i].version == *v))
                    .map(|(n, v, _)| format!("{n}{}", v.as_ref().map(|v| format!("@{v}")).unwrap_or_default()))
                    .collect();
                let row = keys
                    .iter()
                    .position(|k| extra.first().map(|e| *e == k.show()).unwrap_or(false))
                    .map(|i| outcomes[i].1)
                    .unwrap_or("multi");
                run.violate(
                    format!("cell:{row}:missing≠found"),
                    format!("the result holds {extra:?}, which the documented lookup does not find; keys [{keys_s}]"),
                );
            }
        }
        (None, other) => {
            let (g, gk, name) = match other {
                Got::Unknown(n, _) => (format!("UnknownPackage({n})"), "unknown", n.clone()),
                Got::Failure(n, _) => (format!("PackageResolutionFailure({n})"), "failure", n.clone()),
                Got::Other(e) => (e.clone(), "other", String::new()),
                Got::Ok(_) => unreachable!(),
            };
            let row = keys
                .iter()
                .position(|k| k.name == name)
                .map(|i| outcomes[i].1)
                .unwrap_or("multi");
            run.violate(
                format!("cell:{row}:ok≠{gk}"),
                format!("the documented lookup succeeds for every key, the resolver returned {g}; keys [{keys_s}]"),
            );
        }
    }
    run.tape.event(format!(
        "outcome {}",
        match &got {
            Got::Ok(m) => format!("ok({})", m.len()),
            Got::Unknown(n, _) => format!("unknown({n})"),
            Got::Failure(n, _) => format!("failure({n})"),
            Got::Other(_) => "other".into(),
        }
    ));
    let _ = std::fs::remove_dir_all(&root_dir);
}
