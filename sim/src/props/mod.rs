//! Per-property simulations and their batch configurations.

pub mod c14;
pub mod c16;
pub mod c18;
pub mod c19;
#[cfg(feature = "reg")]
pub mod c20;

use crate::engine::Tier;
use crate::supervisor::BatchCfg;
use serde_json::json;

pub fn batch_cfg(prop: &str, tier: Tier, seed: u64) -> BatchCfg {
    let quick = tier == Tier::Quick;
    let mut cfg = BatchCfg {
        prop: prop.to_string(),
        tier,
        seed,
        runs: 1000,
        chunk: 500,
        workers: 16,
        arena_sensitive: false,
        watchdog_s: 60,
        recheck: if quick { 64 } else { 512 },
        batch_wall_s: if quick { 240 } else { 3000 },
        sample_every: 1000,
        level: "exploration".into(),
        rule: String::new(),
        assumptions: Vec::new(),
        components: json!({}),
        extra_env: Vec::new(),
        crashes_are_violations: true,
        variants: Vec::new(),
        expected_probes: Vec::new(),
    };
    match prop {
        "C20" => {
            cfg.expected_probes = vec!["same_name_two_versions".into(), "versioned_plus_unversioned".into(), "error_with_inflight_downloads".into(), "completion_order_reversed".into(), "first_completed_is_last_requested".into(), "handover_disk_and_registry_mixed".into(), "fetch_error".into(), "download_error".into(), "content_lost".into(), "task_abort".into(), "slow_node".into(), "dup_poll".into()];
            cfg.runs = if quick { 100_000 } else { 10_000_000 };
            cfg.chunk = if quick { 500 } else { 5000 };
            cfg.sample_every = cfg.runs / 4;
            cfg.rule = "Seeded simulation runs: each run draws (from one choice tape) a registry of 1-5 packages x 0-4 releases (some yanked / pre-release), 1-6 requested keys (same name at several versions, versioned+unversioned, missing package/version, invalid names) in a drawn request order, a scheduler flavour, latencies and a fault plan, then executes the real RegistryPackageResolver::resolve on the simulator's executor; one run in four instead goes through the hand-over in wac_cli::PackageResolver::resolve (a parsed document, some keys also present on a simulated disk in the documented layout, the rest asked of the registry). A run is non-trivial if at least one fault fired or at least two keys were requested; distinct = distinct SHA-256 digests of the run's event log (scenario + every issue/fire/poll/spawn/abort event + outcome).".into();
            cfg.assumptions = vec![
                "The reference registry's answers (missing log => PackageDoesNotExist; exact version absent or yanked => PackageVersionDoesNotExist; latest = highest non-yanked release matching `*`, pre-releases excluded) are transcribed from warg-client 0.9.0 / warg-protocol 0.9.0 sources; the real Warg client, server and network are not run.".into(),
                "Seam R (cargo feature verif-hooks) replaces only the `use` of warg_client::{Client,ClientError,Config,FileSystemClient} and the path `tokio::spawn`; the body of RegistryPackageResolver::resolve is the shipped code.".into(),
                "A clean batch is evidence over the sampled schedules and fault sequences, not a proof.".into(),
            ];
            cfg.components = json!({
                "real": ["wac_resolver::RegistryPackageResolver::{new,resolve} (registry.rs, unmodified body)", "wac_cli::PackageResolver::{new,resolve} (src/lib.rs: file-system lookup first, registry for the rest), wac_resolver::packages, FileSystemPackageResolver", "futures::stream::FuturesUnordered", "indexmap", "std::fs::read of downloaded content (tmpfs)", "warg_protocol::registry::PackageName", "semver"],
                "stub": ["warg_client::Client + Warg server + HTTP (reference registry model behind seam R)", "tokio task scheduler (simulator's discrete-event executor; which ready task is polled next and which response arrives next are tape draws)", "clock (simulated microseconds; no real time is read)"],
            });
        }
        "C16" => {
            cfg.expected_probes = vec!["base_after_>=2_dependants".into(), ">=2_explicit_imports".into(), ">=2_same_rank_instantiations".into(), ">=2_missing_with_names".into(), ">=2_plug_names".into(), ">=2_instantiations".into(), "child_processes".into()];
            cfg.arena_sensitive = true;
            cfg.crashes_are_violations = false;
            cfg.runs = if quick { 4_000 } else { 200_000 };
            cfg.chunk = 64;
            cfg.sample_every = cfg.runs / 4;
            cfg.recheck = if quick { 32 } else { 256 };
            cfg.rule = "Seeded simulation runs: each run decodes one workload from the choice tape (G: a graph-API history of up to 30/40 operations over a 19-package component library, including type definitions in shuffled order; D: a generated WAC document; S: one of the .wac files shipped in the repository with its dependency tree) and executes it in 3 (quick) / 6 (thorough) simulated processes = fresh OS threads whose std RandomState keys come from the interposed getrandom under a hash seed drawn from the tape and whose id-arena counter is aligned by (run, process); each process executes the workload twice and encodes a clone of the graph. All observation vectors (operation results, imports listing, DOT text, encodings with dependencies defined and imported, clone encodings, AST JSON, printed text, package keys, rendered diagnostics) must be identical. Every run is non-trivial (several processes with distinct hash schedules); distinct = distinct SHA-256 digests of the run's event log (workload description + digest of the observation vector).".into();
            cfg.assumptions = vec![
                "Hash iteration order is the only hidden scheduler in these paths; it is controlled through std's weak getrandom symbol (seam H) and the id-arena counter (seam A). ASLR-dependent behaviour would not be reproduced by a replay and is reported as such.".into(),
                "Packages of shipped documents are loaded once per worker through the real FileSystemPackageResolver under a fixed hash seed; the per-process pipeline starts at Document::parse.".into(),
                "A clean batch is evidence over the sampled workloads and hash schedules, not a proof.".into(),
            ];
            cfg.components = json!({
                "real": ["wac-parser (lexer, parser, printer, resolution)", "wac-graph (graph API, encoder)", "wac-types (package decoding, aggregator, checker)", "wac-resolver (packages discovery, fs resolver at load time)", "wasmparser / wasm-encoder / wit-parser / wit-component", "std HashMap/HashSet (real SipHash, keys chosen by the simulator)"],
                "stub": ["kernel getrandom (interposed: keys are a function of the simulated process's hash seed)", "process boundary (a simulated process is a fresh OS thread, joined before the next one starts)"],
            });
        }
        "C14" => {
            cfg.expected_probes = vec!["truncate".into(), "bitflip".into(), "zero_range".into(), "dup_range".into(), "delete".into(), "empty_file".into(), "random_bytes".into(), "dir_in_place_of_file".into(), "core_module_in_place_of_component".into(), "splice_from_other_file".into(), "swap_files".into(), "invalid_utf8".into(), "insert_multibyte".into(), "ok_outputs".into(), "diagnostics_rendered".into()];
            cfg.runs = c14::sampled_runs(tier) + c14::enum_runs(tier);
            cfg.chunk = if quick { 500 } else { 5000 };
            cfg.sample_every = cfg.runs / 5;
            cfg.level = "fault_enumeration".into();
            cfg.batch_wall_s = if quick { 400 } else { 5400 };
            cfg.rule = format!("Two kinds of runs. (a) Sampled: {} seeded runs; each draws a corpus state (a `wac compose` scenario over a generated or shipped document with its dependency tree on a simulator-owned disk, or a shape input whose nesting/size parameter is drawn from 8..60000) and a sequence of 1-4 stored-byte faults (one scenario in eight runs fault-free; truncate, bitflip, zero_range, dup_range, delete, empty_file, random_bytes, dir_in_place_of_file, core_module_in_place_of_component, splice_from_other_file, swap_files, invalid_utf8, insert_multibyte) on the source and the dependency files, then runs read -> parse -> print -> discover -> fs lookup -> decode every stored package -> resolve -> encode (both dependency modes) in a simulated process with an 8 MiB stack under a supervisor that attributes aborts, stack overflows and hangs. (b) Enumeration: single faults truncate@k and bitflip@k.b at every offset of every corpus file <= 4096 bytes, and delete_token@k / dup_token@k for every lexical token of every source ({} points over shipped .wac sources, their dependency files, the component library and the hand-written grammar-coverage documents; thorough visits all of them, quick {} = a seeded stride of 30000 plus every point of the hand-written documents). Invariants: no panic / abort / overflow / hang; every span of the returned tree and of every diagnostic within the source on char boundaries; the diagnostic renders. A run is non-trivial if it reached the pipeline; distinct = distinct SHA-256 digests of the run's event log.", c14::sampled_runs(tier), c14::enum_total(), c14::enum_runs(tier));
            cfg.assumptions = vec![
                "Only the fault-sequence half of the property is claimed (stored bytes going bad under the pipeline); the 'arbitrary Unicode text' half is input fuzzing and is not presented as simulation. The generated documents and shape inputs are workload for the faults to land on.".into(),
                "A faulted input may be another valid program: equality with the un-faulted result is not demanded, and whether an Ok output validates is C01's subject (recorded as a side observation only).".into(),
                "Stack size 8 MiB (the main thread `wac` runs on); a hang is 60 s without progress, confirmed by an isolated re-run.".into(),
            ];
            cfg.components = json!({
                "real": ["wac_parser::Document::{parse,resolve}, DocumentPrinter, Resolution::encode", "wac_resolver::{packages, FileSystemPackageResolver} on a tmpfs scratch tree", "wac_types::Package::from_bytes", "wac-graph encoder", "wasmparser / wit-parser / wat", "miette rendering"],
                "stub": ["nothing is stubbed; stored bytes and the directory layout are decided by the simulator"],
            });
        }
        "C18" => {
            cfg.expected_probes = vec!["garbage_file".into(), "dangling_override".into(), "dir_in_place_of_file".into(), "invalid_wit".into(), "empty_dir".into(), "invalid_text".into(), "binary_in_text_file".into(), "decoy_at_set_extension_path".into(), "enumerated_cells".into()];
            cfg.variants = vec!["none".into(), "wit".into(), "full".into()];
            // every single-key decision-table cell in every build, then sampled multi-key runs
            cfg.runs = c18::CELLS_PER_BUILD * c18::BUILDS + if quick { 30_000 } else { 3_000_000 };
            cfg.chunk = if quick { 1500 } else { 15_000 };
            cfg.sample_every = cfg.runs / 4;
            cfg.level = "exploration".into();
            cfg.rule = "Two kinds of runs. (a) Enumeration: the first 113400 runs visit every single-key decision-table cell of every build exactly once (3 builds x mode x 3 name shapes x (unversioned | 4 versions x decoy) x 5 base states x 4 .wasm states x 5 .wat states x 7 override kinds = 37800 cells per build); content bytes inside a cell are drawn from the tape. (b) Sampling of multi-key requests: each run draws 1-3 package keys (1-3 name segments; no version, release, pre-release, build-metadata), the state of every candidate path (base: absent / WIT directory valid / empty / invalid / valid with its own deps/; <base>.wasm: absent / component / garbage / directory; <base>.wat: absent / text / binary / invalid text / directory; a decoy where Path::set_extension would look; override: none / .wasm / .wat / .wit / garbage / dangling / directory), the unknown-package mode and the request order; run i executes in harness build i mod 3 (wac-resolver features none / wit / wit+wat). The real FileSystemPackageResolver::resolve runs on the materialised tree and is compared with an executable model of the documented lookup. A run is non-trivial always; distinct = distinct SHA-256 digests of the run's event log (build, mode, keys, overrides, every file and directory of the tree, expectation per key, outcome). Coverage is also reported as decision-table cells hit (coverage.cover.cells).".into();
            cfg.assumptions = vec![
                "The model is written from README.md and the doc comments of fs.rs and asserts only cells the property specifies; cells the documentation leaves open (override or candidate path being a directory, .wit/.wat override without the corresponding support) are executed, must not panic, and are not judged.".into(),
                "Expected bytes for WIT directories / .wit overrides are what wit_parser + wit_component::encode give for that path; for .wat files what the wat crate assembles.".into(),
                "No schedule, clock or concurrency exists in this path; the simulator contributes the disk states only. I/O errors from healthy-looking paths (EIO, EACCES) are not injected.".into(),
            ];
            cfg.components = json!({
                "real": ["wac_resolver::FileSystemPackageResolver::{new,resolve} in three feature builds (none, wit, wit+wat)", "kernel file system on a tmpfs scratch tree", "wit-parser / wit-component / wat (also used to compute expected bytes)"],
                "stub": ["nothing is stubbed; the disk content and layout are decided by the simulator"],
            });
        }
        "C19" => {
            cfg.expected_probes = vec!["stage:compose:success".into(), "stage:compose:parse".into(), "stage:compose:package-lookup".into(), "stage:compose:resolution".into(), "stage:compose:encoding".into(), "stage:compose:read-source".into(), "stage:plug:success".into(), "stage:plug:plug".into(), "stage:plug:decode".into(), "stage:parse:success".into(), "stage:parse:parse".into(), "stage:targets:success".into(), "stage:targets:verdict".into(), "stage:targets:world".into(), "text_outputs_assembled".into(), "short_write".into(), "short_read".into(), "eintr".into(), "enospc".into(), "eio_read".into(), "open_fail".into(), "stdout_full".into()];
            // a run whose in-process reference dies (stack overflow on these bytes) is C14's
            // subject, like a child that dies on a signal: recorded, not judged
            cfg.crashes_are_violations = false;
            cfg.runs = if quick { 3_000 } else { 150_000 };
            cfg.chunk = 50;
            cfg.sample_every = cfg.runs / 4;
            cfg.recheck = if quick { 32 } else { 256 };
            cfg.rule = "Seeded simulation runs: each run draws a scenario (subcommand compose|plug|parse|targets, a generated or shipped document / library components, a flag combination, 0-2 disk faults on the source or the dependency files, a hash seed), materialises it on a scratch tree, runs the built `wac` binary as a child process with controlled cwd/argv/env, and compares exit status, stdout, stderr and the output file with the same tree's library pipeline executed in-process on the same bytes. A run is non-trivial always (a child process was executed); distinct = distinct SHA-256 digests of the run's event log (scenario, argv, faults, source text, child exit/sizes, reference stage).".into();
            cfg.assumptions = vec![
                "The reference is the library of the same working tree: a consistent change of wording or encoding cannot alarm, only a CLI/library divergence can.".into(),
                "The wac binary is built with --no-default-features --features wit,wat (no registry client is linked; the registry path is C20's subject).".into(),
                "Runs whose child dies on a signal (stack overflow on faulted input) are C14's subject and are recorded, not judged.".into(),
                "For `wac plug` byte equality is demanded only when plugs sharing a file stem are adjacent on the command line; the statement does not fix the order otherwise.".into(),
                "System-call faults (seam S, one run in two): short reads / short writes / EINTR are legal completions and leave the oracle unchanged; after a fault that makes a call fail (ENOSPC while writing, EIO on a read, EACCES on an open of an input) a run that exits 0 must still be right in full, a run that fails must print a diagnostic and (input faults) leave the output path untouched; the wording of that diagnostic is not compared. Fires are counted from the child's own report, not from the plan.".into(),
            ];
            cfg.components = json!({
                "real": ["the built `wac` binary (src/bin/wac.rs, src/commands/*.rs, src/lib.rs) as a child process", "kernel file system on a tmpfs scratch tree", "in-process reference: wac-parser, wac-resolver (fs), wac-graph, wac-types, wasmprinter, wat, wit-parser, wit-component"],
                "stub": ["kernel getrandom in the child (LD_PRELOAD shim keyed by the run's hash seed)", "read / write / open of the child on the scratch tree and stdout pass through the same shim, which shortens, interrupts or fails them by a counter plan drawn from the tape (seam S); the calls that are let through reach the real kernel", "the registry (not linked into this build)"],
            });
        }
        _ => {}
    }
    cfg
}
