//! C14 — no input crashes the front end; diagnostics point inside the source.
//!
//! Claimed part: the fault-sequence half of the property. The system is the compose
//! pipeline sitting on a disk whose stored bytes go bad (truncated / torn / bit-flipped /
//! zeroed / duplicated / misdirected / missing / replaced files). Sampled runs draw a
//! corpus state and 1-4 faults from the tape and run the pipeline exactly as
//! `wac compose` does (real file-system resolver on the simulated disk); enumeration
//! runs place one fault at every offset of every small corpus file. Invariants: every
//! stage returns a value or an error (no panic, abort, stack overflow, hang), every span
//! lies within the source on char boundaries, every diagnostic renders.

use crate::cli::{apply_fault, Tree, FAULT_KINDS};
use crate::corpus::library;
use crate::engine::{Run, Tier};
use crate::gen::{shipped_cases, DocCase};
use crate::seams::{run_process, ProcExit, ProcSpec};
use crate::tape::Tape;
use indexmap::IndexMap;
use miette::Diagnostic;
use semver::Version;
use std::path::{Path, PathBuf};
use std::sync::Arc;
use std::sync::OnceLock;
use wac_graph::EncodeOptions;
use wac_types::BorrowedPackageKey;

type Pkgs = Vec<(String, Option<String>, Arc<Vec<u8>>)>;

#[derive(Debug, Default, Clone)]
pub struct Findings {
    /// (class, detail) of the first invariant violation
    pub violation: Option<(String, String)>,
    /// stage reached and outcome class, for the evidence
    pub triples: Vec<String>,
    pub ok_outputs: u64,
    pub invalid_outputs_not_judged: u64,
    pub diagnostics_rendered: u64,
    pub spans_checked: u64,
}

impl Findings {
    fn violate(&mut self, class: String, detail: String) {
        if self.violation.is_none() {
            self.violation = Some((class, detail));
        }
    }
}

fn check_span(f: &mut Findings, source: &str, offset: usize, len: usize, stage: &str, what: &str) {
    f.spans_checked += 1;
    let end = offset.checked_add(len);
    match end {
        Some(end) if end <= source.len() => {
            if !source.is_char_boundary(offset) || !source.is_char_boundary(end) {
                f.violate(
                    format!("span-not-char-boundary:{stage}"),
                    format!("{what}: span {offset}+{len} is not on character boundaries of the {}-byte source", source.len()),
                );
            }
        }
        _ => f.violate(
            format!("span-out-of-range:{stage}"),
            format!("{what}: span {offset}+{len} exceeds the {}-byte source", source.len()),
        ),
    }
}

fn walk_spans(f: &mut Findings, source: &str, v: &serde_json::Value, stage: &str) {
    match v {
        serde_json::Value::Object(m) => {
            if m.len() == 2 {
                if let (Some(o), Some(l)) = (m.get("offset").and_then(|x| x.as_u64()), m.get("length").and_then(|x| x.as_u64())) {
                    check_span(f, source, o as usize, l as usize, stage, "tree node");
                    return;
                }
            }
            for (_, x) in m {
                walk_spans(f, source, x, stage);
            }
        }
        serde_json::Value::Array(a) => {
            for x in a {
                walk_spans(f, source, x, stage);
            }
        }
        _ => {}
    }
}

fn check_diag<E>(f: &mut Findings, source: &str, e: E, stage: &str)
where
    E: Diagnostic + Send + Sync + 'static,
{
    {
        let mut cur: Option<&dyn Diagnostic> = Some(&e);
        let mut depth = 0;
        while let Some(d) = cur {
            if let Some(labels) = d.labels() {
                for l in labels {
                    check_span(f, source, l.offset(), l.len(), stage, "diagnostic label");
                }
            }
            if let Some(rel) = d.related() {
                for r in rel {
                    if let Some(labels) = r.labels() {
                        for l in labels {
                            check_span(f, source, l.offset(), l.len(), stage, "related diagnostic label");
                        }
                    }
                }
            }
            cur = d.diagnostic_source();
            depth += 1;
            if depth > 16 {
                break;
            }
        }
    }
    let text = crate::props::c16::render_diag(e, source);
    if text == "RENDER-FAILURE" {
        f.violate(
            format!("render-failure:{stage}"),
            "the diagnostic could not be rendered against the source".to_string(),
        );
    } else {
        f.diagnostics_rendered += 1;
    }
}

fn note(stage: &str, tag: &str) {
    crate::note(&format!("{stage}:{tag}"));
}

fn decode_all(f: &mut Findings, packages: &[(String, Option<Version>, Arc<Vec<u8>>)], tag: &str) {
    for (name, version, bytes) in packages {
        note("decode", tag);
        let mut types = wac_types::Types::default();
        match wac_types::Package::from_bytes(name, version.as_ref(), bytes.as_ref().clone(), &mut types) {
            Ok(_) => f.triples.push("decode|ok".into()),
            Err(_) => f.triples.push("decode|err".into()),
        }
    }
}

/// parse → print → discover → (packages) → resolve → encode, with all invariants.
fn front_end(
    f: &mut Findings,
    source_bytes: &[u8],
    tag: &str,
    lookup: &mut dyn FnMut(&mut Findings, &str, &wac_parser::Document, &IndexMap<BorrowedPackageKey, miette::SourceSpan>) -> Option<IndexMap<String, (Option<Version>, Vec<u8>)>>,
) {
    let source = match std::str::from_utf8(source_bytes) {
        Ok(s) => s,
        Err(_) => {
            f.triples.push("read|invalid-utf8".into());
            return;
        }
    };
    note("parse", tag);
    let doc = match wac_parser::Document::parse(source) {
        Ok(d) => d,
        Err(e) => {
            f.triples.push(format!("parse|err:{}", variant_name(&format!("{e:?}"))));
            check_diag(f, source, e, "parse");
            return;
        }
    };
    f.triples.push("parse|ok".into());
    if let Ok(v) = serde_json::to_value(&doc) {
        walk_spans(f, source, &v, "parse");
    }
    note("print", tag);
    {
        let mut text = String::new();
        let _ = wac_parser::DocumentPrinter::new(&mut text, source, None).document(&doc);
    }
    note("discover", tag);
    let keys = match wac_resolver::packages(&doc) {
        Ok(k) => k,
        Err(e) => {
            f.triples.push(format!("discover|err:{}", variant_name(&format!("{e:?}"))));
            check_diag(f, source, e, "discover");
            return;
        }
    };
    for span in keys.values() {
        check_span(f, source, span.offset(), span.len(), "discover", "package reference");
    }
    note("lookup", tag);
    let Some(found) = lookup(f, source, &doc, &keys) else { return };
    let mut packages: IndexMap<BorrowedPackageKey<'_>, Vec<u8>> = IndexMap::new();
    for key in keys.keys() {
        if let Some((_, (_, bytes))) = found
            .iter()
            .find(|(k, (v, _))| {
                let (n, _) = k.split_once('\u{0}').unwrap_or((k.as_str(), ""));
                n == key.name && v.as_ref() == key.version
            })
        {
            packages.insert(*key, bytes.clone());
        }
    }
    note("resolve", tag);
    let resolution = match doc.resolve(packages) {
        Ok(r) => r,
        Err(e) => {
            f.triples.push(format!("resolve|err:{}", variant_name(&format!("{e:?}"))));
            check_diag(f, source, e, "resolve");
            return;
        }
    };
    f.triples.push("resolve|ok".into());
    // Input-shape tag for crash attribution: an explicit import that carries the name of an
    // interface other than its own and shares a semver track with an implicit import.
    let tag = {
        let g = resolution.graph();
        let imports: Vec<(String, wac_types::ItemKind, bool)> = g
            .imports()
            .map(|(n, k, id)| (n.to_string(), k, id.is_some()))
            .collect();
        // names in play: every import name plus the ids of the interfaces the imports use
        let mut names_in_play: Vec<(usize, String)> = Vec::new();
        for (i, (n, k, _)) in imports.iter().enumerate() {
            names_in_play.push((i, n.clone()));
            if let wac_types::ItemKind::Instance(id) = k {
                for used in g.types()[*id].uses.values() {
                    if let Some(uid) = &g.types()[used.interface].id {
                        names_in_play.push((i, uid.clone()));
                    }
                }
            }
        }
        let shadows = imports.iter().enumerate().any(|(i, (n, k, explicit))| {
            *explicit
                && n.contains('/')
                && match k {
                    wac_types::ItemKind::Instance(id) => g.types()[*id].id.as_deref() != Some(n.as_str()),
                    _ => true,
                }
                && names_in_play
                    .iter()
                    .any(|(j, n2)| (*j != i || n2 != n) && (n2 == n || wac_types::are_semver_compatible(n, n2)) && !(*j == i && n2 == n))
        });
        // a registered package one of whose instance imports exports a nested instance with an
        // identifier on the semver track of another interface name in play (the aggregator,
        // at encode time, merges such interfaces into one that contains itself): the second
        // input-shape tag
        let cyclic = {
            let mut top: Vec<String> = Vec::new();
            let mut nested: Vec<String> = Vec::new();
            for p in g.packages() {
                let world = &g.types()[p.ty()];
                for (n, k) in &world.imports {
                    top.push(n.clone());
                    if let wac_types::ItemKind::Instance(id) = k {
                        for (_, k2) in &g.types()[*id].exports {
                            if let wac_types::ItemKind::Instance(inner) = k2 {
                                if let Some(iid) = &g.types()[*inner].id {
                                    nested.push(iid.clone());
                                }
                            }
                        }
                    }
                }
            }
            nested.iter().enumerate().any(|(i, n)| {
                top.iter().any(|t| t == n || wac_types::are_semver_compatible(t, n))
                    || nested.iter().enumerate().any(|(j, m)| j != i && (m == n || wac_types::are_semver_compatible(m, n)))
            })
        };
        if shadows {
            format!("{tag}:explicit-import-named-like-implicit-interface")
        } else if cyclic {
            format!("{tag}:merged-interface-contains-itself")
        } else {
            tag.to_string()
        }
    };
    let tag = tag.as_str();
    for (stage, define) in [("encode-defined", true), ("encode-imported", false)] {
        note(stage, tag);
        match resolution.encode(EncodeOptions {
            define_components: define,
            validate: false,
            processor: None,
        }) {
            Ok(bytes) => {
                f.ok_outputs += 1;
                f.triples.push(format!("{stage}|ok"));
                // side observation only (C01's subject): does the output validate?
                if wasmparser::Validator::new_with_features(wasmparser::WasmFeatures::all())
                    .validate_all(&bytes)
                    .is_err()
                {
                    f.invalid_outputs_not_judged += 1;
                }
                // the composed component stored and used as a package of a later composition
                // ("decoding any byte string as a package"): with dependencies defined it
                // holds components that hold modules, with sections of their own after them
                note("decode-own-output", tag);
                let mut types = wac_types::Types::default();
                match wac_types::Package::from_bytes("test:composed", None, bytes, &mut types) {
                    Ok(_) => f.triples.push(format!("decode-own-output:{stage}|ok")),
                    Err(_) => f.triples.push(format!("decode-own-output:{stage}|err")),
                }
            }
            Err(e) => {
                f.triples.push(format!("{stage}|err:{}", variant_name(&format!("{e:?}"))));
                check_diag(f, source, e, stage);
            }
        }
    }
}

fn variant_name(debug: &str) -> String {
    debug
        .chars()
        .take_while(|c| c.is_ascii_alphanumeric())
        .collect()
}

fn key_of(name: &str, version: &Option<Version>) -> String {
    format!("{name}\u{0}{}", version.as_ref().map(|v| v.to_string()).unwrap_or_default())
}

/// The pipeline with in-memory packages (enumeration runs).
fn pipeline_mem(source: Vec<u8>, packages: Vec<(String, Option<Version>, Arc<Vec<u8>>)>, tag: String) -> Findings {
    let mut f = Findings::default();
    decode_all(&mut f, &packages, &tag);
    let mut lookup = |_f: &mut Findings, _s: &str, _d: &wac_parser::Document, _k: &IndexMap<BorrowedPackageKey, miette::SourceSpan>| {
        let mut m = IndexMap::new();
        for (n, v, b) in &packages {
            m.insert(key_of(n, v), (v.clone(), b.as_ref().clone()));
        }
        Some(m)
    };
    front_end(&mut f, &source, &tag, &mut lookup);
    f
}

/// The pipeline on the simulated disk, exactly as `wac compose` runs it.
fn pipeline_disk(root: PathBuf, src: String, deps_dir: String, overrides: Vec<(String, String)>, tag: String) -> Findings {
    let mut f = Findings::default();
    // decode every stored package file directly as well
    let mut stored: Vec<(String, Option<Version>, Arc<Vec<u8>>)> = Vec::new();
    fn walk(dir: &Path, out: &mut Vec<PathBuf>) {
        if let Ok(rd) = std::fs::read_dir(dir) {
            let mut v: Vec<PathBuf> = rd.filter_map(|e| e.ok().map(|e| e.path())).collect();
            v.sort();
            for p in v {
                if p.is_dir() {
                    walk(&p, out);
                } else {
                    out.push(p);
                }
            }
        }
    }
    let mut files = Vec::new();
    walk(&root.join(&deps_dir), &mut files);
    walk(&root.join("over"), &mut files);
    for p in files {
        if let Ok(b) = std::fs::read(&p) {
            stored.push(("stored:pkg".into(), None, Arc::new(b)));
        }
    }
    decode_all(&mut f, &stored, &tag);
    let source = match std::fs::read(root.join(&src)) {
        Ok(b) => b,
        Err(_) => {
            f.triples.push("read|io-error".into());
            return f;
        }
    };
    let root2 = root.clone();
    let mut lookup = move |f: &mut Findings, source: &str, _d: &wac_parser::Document, keys: &IndexMap<BorrowedPackageKey, miette::SourceSpan>| {
        let ov = overrides
            .iter()
            .map(|(k, v)| (k.clone(), root2.join(v)))
            .collect();
        let fs = wac_resolver::FileSystemPackageResolver::new(root2.join(&deps_dir), ov, false);
        match fs.resolve(keys) {
            Ok(found) => {
                f.triples.push("lookup|ok".into());
                let mut m = IndexMap::new();
                for (k, b) in found {
                    m.insert(key_of(k.name, &k.version.cloned()), (k.version.cloned(), b));
                }
                Some(m)
            }
            Err(e) => {
                f.triples.push(format!("lookup|err:{}", variant_name(&format!("{e:?}"))));
                check_diag(f, source, e, "lookup");
                None
            }
        }
    };
    front_end(&mut f, &source, &tag, &mut lookup);
    f
}

// ---------------------------------------------------------------------------
// Shape corpus: inputs whose size parameter is drawn per run
// ---------------------------------------------------------------------------

const DEPTHS: &[usize] = &[8, 64, 512, 1_000, 2_000, 6_000, 20_000, 60_000];

pub const SHAPES: &[&str] = &[
    "nested-parens",
    "nested-new",
    "nested-list-type",
    "nested-tuple-type",
    "nested-option-result",
    "alias-chain",
    "postfix-chain",
    "many-args",
    "many-exports",
    "long-ident",
    "long-string",
    "nested-inline-interface-func",
    "deep-record-refs",
    "component-type-chain",
    "component-nested-instances",
    "component-many-imports",
    "component-many-imports-explicit-args",
    "dag-records",
    "dag-variants-in-func",
    "empty-delimiters",
    "odd-package",
    "flat-alias-chain",
    "track-nest-order",
];

/// Valid but hand-shaped components (no toolchain emits them) with the document that
/// drives each through the pipeline; package name `ns:a`. Found by a sub-agent probing the
/// unmodified tree by hand (DESIGN 11.12): each one crashed the decoder's consumers, the
/// aggregator or the encoder. The repaired ones stay here as regression inputs, the open
/// ones are listed in known_findings.json.
pub const ODD_PACKAGES: &[(&str, &str, &str)] = &[
    ("resource-of-plain-instance-as-type-import", include_str!("../odd/f1.wat"), include_str!("../odd/f1.wac")),
    ("nested-instance-aliases-parent-resource", include_str!("../odd/f2.wat"), include_str!("../odd/f2.wac")),
    ("nested-instance-with-parent-id", include_str!("../odd/f3.wat"), include_str!("../odd/f3.wac")),
    ("nested-instance-reexports-outer-resource", include_str!("../odd/f4.wat"), include_str!("../odd/f4.wac")),
    ("world-use-of-plain-instance-targets", include_str!("../odd/f5.wat"), include_str!("../odd/f5.wac")),
    ("interface-use-of-plain-instance", include_str!("../odd/f6.wat"), include_str!("../odd/f6.wac")),
    ("instance-aliases-root-resource", include_str!("../odd/f7.wat"), include_str!("../odd/f7.wac")),
    ("component-aliases-root-resource", include_str!("../odd/f8.wat"), include_str!("../odd/f8.wac")),
    ("semver-track-reexports-resource", include_str!("../odd/f9.wat"), include_str!("../odd/f9.wac")),
    ("instance-type-shared-by-plain-and-id-names", include_str!("../odd/f10.wat"), include_str!("../odd/f10.wac")),
    ("instance-type-shared-by-plain-and-id-names-use", include_str!("../odd/f10.wat"), include_str!("../odd/f10b.wac")),
    ("instance-type-export-as-world-item", include_str!("../odd/h1f1.wat"), include_str!("../odd/h1f1.wac")),
    ("instance-type-export-used", include_str!("../odd/h1f1.wat"), include_str!("../odd/h1f2.wac")),
];

/// Every bracketed list of the grammar with nothing (or only a separator) inside.
const EMPTY_FORMS: &[&str] = &[
    "type t = tuple<>;",
    "type t = tuple<,>;",
    "type t = list<>;",
    "type t = option<>;",
    "type t = result<>;",
    "type t = result<,>;",
    "type t = result<_,>;",
    "type t = borrow<>;",
    "record r {}",
    "record r { , }",
    "variant v {}",
    "variant v { a() }",
    "enum e {}",
    "flags f {}",
    "type f = func(,);",
    "type f = func() -> ;",
    "interface i {}",
    "interface i { use a.{}; }",
    "interface i { resource r {} }",
    "interface i { f: func(x: borrow<>); }",
    "world w {}",
    "world w { include a:b/c with {}; }",
    "world w { import x: interface {}; }",
    "import x: interface {};",
    "let x = new a:b {};",
    "let x = new a:b { , };",
    "let x = new a:b { ...  };",
    "let x = y[\"\"];",
    "let x = y.;",
    "let x = ();",
    "export x as \"\";",
    "import x as \"\": func();",
    "package a:b targets ;",
];

fn shape(t: &mut Tape, force_odd: Option<usize>) -> (String, String, Pkgs) {
    let which = match force_odd {
        Some(_) => {
            let pos = SHAPES.iter().position(|s| *s == "odd-package").unwrap_or(0);
            SHAPES[t.draw_preset(SHAPES.len() as u64, pos as u64) as usize]
        }
        None => *t.pick(SHAPES),
    };
    let n = *t.pick(DEPTHS);
    let lib: Pkgs = library()
        .iter()
        .take(12)
        .map(|p| (p.name.to_string(), p.version.map(|v| v.to_string()), Arc::new(p.bytes.clone())))
        .collect();
    let head = "package test:shape;\n";
    let (src, pkgs): (String, Pkgs) = match which {
        "nested-parens" => (
            format!("{head}import a: func();\nlet x = {}a{};\nexport x as \"y\";\n", "(".repeat(n), ")".repeat(n)),
            lib,
        ),
        "nested-new" => {
            let mut s = String::from(head);
            s.push_str("let x = ");
            for _ in 0..n {
                s.push_str("new wat:simple { f: ");
            }
            s.push_str("new wat:simple { ... }.g");
            for _ in 0..n {
                s.push_str(" }.g");
            }
            s.push_str(";\n");
            let p: Pkgs = library()
                .iter()
                .filter(|p| p.name == "wat:simple")
                .map(|p| (p.name.to_string(), None, Arc::new(p.bytes.clone())))
                .collect();
            (s, p)
        }
        "nested-list-type" => (
            format!("{head}type t = {}u8{};\n", "list<".repeat(n), ">".repeat(n)),
            Vec::new(),
        ),
        "nested-tuple-type" => (
            format!("{head}type t = {}u8{};\n", "tuple<u8, ".repeat(n), ">".repeat(n)),
            Vec::new(),
        ),
        "nested-option-result" => (
            format!("{head}type t = {}u8{};\n", "option<result<".repeat(n), ">>".repeat(n)),
            Vec::new(),
        ),
        "alias-chain" => {
            let mut s = String::from(head);
            s.push_str("type t0 = u8;\n");
            for i in 1..n.min(3_000) {
                s.push_str(&format!("type t{i} = list<t{}>;\n", i - 1));
            }
            (s, Vec::new())
        }
        "postfix-chain" => {
            let mut s = String::from(head);
            s.push_str("let i = new wat:inst { ... };\nlet x = i");
            for _ in 0..n.min(6_000) {
                s.push_str("[\"test:wit/foo\"]");
            }
            s.push_str(";\n");
            let p: Pkgs = library()
                .iter()
                .filter(|p| p.name == "wat:inst")
                .map(|p| (p.name.to_string(), None, Arc::new(p.bytes.clone())))
                .collect();
            (s, p)
        }
        "many-args" => {
            let mut s = String::from(head);
            s.push_str("import f: func();\nlet x = new wat:simple { ");
            for i in 0..n.min(6_000) {
                s.push_str(&format!("a{i}: f, "));
            }
            s.push_str("... };\n");
            let p: Pkgs = library()
                .iter()
                .filter(|p| p.name == "wat:simple")
                .map(|p| (p.name.to_string(), None, Arc::new(p.bytes.clone())))
                .collect();
            (s, p)
        }
        "many-exports" => {
            let mut s = String::from(head);
            s.push_str("import f: func();\n");
            for i in 0..n.min(6_000) {
                s.push_str(&format!("export f as \"e{i}\";\n"));
            }
            (s, Vec::new())
        }
        "long-ident" => (
            format!("{head}import {}: func();\n", "a".repeat(n.max(1))),
            Vec::new(),
        ),
        "long-string" => (
            format!("{head}import f as \"{}\": func();\n", "b".repeat(n.max(1))),
            Vec::new(),
        ),
        "nested-inline-interface-func" => {
            // function types nested through parameters
            let mut ty = String::from("u8");
            for _ in 0..n.min(3000) {
                ty = format!("tuple<{ty}>");
            }
            (format!("{head}import f: func(a: {ty}) -> {ty};\ninterface i {{ g: func(a: {ty}); }}\n"), Vec::new())
        }
        "deep-record-refs" => {
            let mut s = String::from(head);
            s.push_str("record r0 { a: u8 }\n");
            for i in 1..n.min(3_000) {
                s.push_str(&format!("record r{i} {{ a: r{} }}\n", i - 1));
            }
            (s, Vec::new())
        }
        "component-type-chain" => {
            let bytes = component_type_chain(n.min(200_000));
            (
                format!("{head}let x = new shape:comp {{ ... }};\nexport x...;\n"),
                vec![("shape:comp".into(), None, Arc::new(bytes))],
            )
        }
        "component-nested-instances" => {
            let bytes = component_nested_instances(n.min(5000));
            (
                format!("{head}let x = new shape:comp {{ ... }};\nexport x...;\n"),
                vec![("shape:comp".into(), None, Arc::new(bytes))],
            )
        }
        "component-many-imports-explicit-args" => {
            // explicit arguments at indices around the 64 / 128 boundaries, the rest implicit
            let m = n.min(2_000).max(2);
            let bytes = component_many_imports(m);
            let mut s = String::from(head);
            s.push_str("import f: func();\nlet x = new shape:comp { ");
            for i in [0usize, 1, 31, 32, 63, 64, 65, 127, 128, 129, 255, 256] {
                if i < m {
                    s.push_str(&format!("f{i}: f, "));
                }
            }
            s.push_str("... };\nexport x...;\n");
            (s, vec![("shape:comp".into(), None, Arc::new(bytes))])
        }
        "dag-records" => {
            // records that mention the previous record twice: a DAG with 2^n paths
            let m = n.min(200).max(1);
            let mut s = String::from(head);
            s.push_str("record t0 { a: u8 }\n");
            for i in 1..=m {
                s.push_str(&format!("record t{i} {{ a: t{}, b: t{} }}\n", i - 1, i - 1));
            }
            s.push_str(&format!("type f = func() -> t{m};\nimport g: func(x: t{m});\n"));
            (s, Vec::new())
        }
        "odd-package" => {
            let k = match force_odd {
                Some(k) => t.draw_preset(ODD_PACKAGES.len() as u64, k as u64) as usize,
                None => t.index(ODD_PACKAGES.len()),
            };
            let (name, wat_text, doc) = ODD_PACKAGES[k];
            let bytes = wat::parse_str(wat_text).unwrap_or_default();
            return (
                format!("odd-package-{name}:{n}"),
                doc.to_string(),
                vec![("ns:a".into(), None, Arc::new(bytes))],
            );
        }
        "track-nest-order" => {
            // two library components whose imports nest instances on one semver track,
            // instantiated in either order (the aggregator merges them differently)
            let names = if t.chance(1, 2) {
                ["odd:track-nest-b", "odd:track-nest-a"]
            } else {
                ["odd:track-nest-a", *t.pick(&["odd:track-nest-b", "odd:track-nest-c"])]
            };
            let p: Pkgs = library()
                .iter()
                .filter(|p| names.contains(&p.name))
                .map(|p| (p.name.to_string(), None, Arc::new(p.bytes.clone())))
                .collect();
            (
                format!("{head}let i1 = new {} {{ ... }};\nlet i2 = new {} {{ ... }};\n", names[0], names[1]),
                p,
            )
        }
        "flat-alias-chain" => {
            // a long chain of aliases at syntactic depth 2 (the parser's nesting limit does
            // not apply): type a1 = a0; type a2 = a1; ... inside an interface
            let mut s = String::from(head);
            s.push_str("interface i {\n    type a0 = list<u8>;\n");
            for i in 1..n.min(60_000) {
                s.push_str(&format!("    type a{i} = a{};\n", i - 1));
            }
            s.push_str("}\n");
            (s, Vec::new())
        }
        "empty-delimiters" => {
            let form = EMPTY_FORMS[t.index(EMPTY_FORMS.len())];
            // alone, and after a valid prefix (so that the resolver sees what the parser accepts)
            let prefix = if t.chance(1, 2) { "import y: func();\ninterface a { type t = u8; }\n" } else { "" };
            (format!("{head}{prefix}{form}\n"), lib)
        }
        "dag-variants-in-func" => {
            let m = n.min(200).max(1);
            let mut s = String::from(head);
            s.push_str("variant v0 { a(u8), b }\n");
            for i in 1..=m {
                s.push_str(&format!("variant v{i} {{ a(v{}), b(tuple<v{}, v{}>), c }}\n", i - 1, i - 1, i - 1));
            }
            s.push_str(&format!("type f2 = func(x: v{m}) -> option<v{m}>;\nimport g2: func(x: list<v{m}>) -> v{m};\n"));
            (s, Vec::new())
        }
        _ => {
            let bytes = component_many_imports(n.min(20_000));
            (
                format!("{head}let x = new shape:comp {{ ... }};\nlet y = new shape:comp {{ ... }};\nexport x...;\n"),
                vec![("shape:comp".into(), None, Arc::new(bytes))],
            )
        }
    };
    (format!("{which}:{n}"), src, pkgs)
}

/// `(type (list u8)) (type (list 0)) (type (list 1)) … ; (import "f" (func (param "a" <last>)))`
fn component_type_chain(n: usize) -> Vec<u8> {
    use wasm_encoder::*;
    let mut c = Component::new();
    let mut types = ComponentTypeSection::new();
    types.defined_type().list(ComponentValType::Primitive(PrimitiveValType::U8));
    for i in 1..n.max(1) {
        types.defined_type().list(ComponentValType::Type(i as u32 - 1));
    }
    let last = n.max(1) as u32 - 1;
    types
        .function()
        .params([("a", ComponentValType::Type(last))])
        .result(None);
    c.section(&types);
    let mut imports = ComponentImportSection::new();
    imports.import("f", ComponentTypeRef::Func(last + 1));
    c.section(&imports);
    // re-export the import so that the whole pipeline (resolve, encode) sees the type
    let mut exports = ComponentExportSection::new();
    exports.export("g", ComponentExportKind::Func, 0, None);
    c.section(&exports);
    c.finish()
}

/// An imported instance type nested `n` deep: (instance (export "i" (instance (export "i" …))))
fn component_nested_instances(n: usize) -> Vec<u8> {
    use wasm_encoder::*;
    fn nest(depth: usize) -> InstanceType {
        let mut ty = InstanceType::new();
        if depth > 0 {
            ty.ty().instance(&nest(depth - 1));
            ty.export("i", ComponentTypeRef::Instance(0));
        }
        ty
    }
    // build iteratively to avoid blowing our own stack for large n
    let mut inner = InstanceType::new();
    for _ in 0..n {
        let mut outer = InstanceType::new();
        outer.ty().instance(&inner);
        outer.export("i", ComponentTypeRef::Instance(0));
        inner = outer;
    }
    let _ = nest;
    let mut c = Component::new();
    let mut types = ComponentTypeSection::new();
    types.instance(&inner);
    c.section(&types);
    let mut imports = ComponentImportSection::new();
    imports.import("i", ComponentTypeRef::Instance(0));
    c.section(&imports);
    c.finish()
}

fn component_many_imports(n: usize) -> Vec<u8> {
    use wasm_encoder::*;
    let mut c = Component::new();
    let mut types = ComponentTypeSection::new();
    types.function().params::<[(&str, ComponentValType); 0], ComponentValType>([]).result(None);
    c.section(&types);
    let mut imports = ComponentImportSection::new();
    for i in 0..n.max(1) {
        imports.import(&format!("f{i}"), ComponentTypeRef::Func(0));
    }
    c.section(&imports);
    c.finish()
}

// ---------------------------------------------------------------------------
// Enumeration space: one fault at every offset of every small corpus file
// ---------------------------------------------------------------------------

#[derive(Debug, Clone)]
enum Target {
    Source,
    Package(usize),
}

#[derive(Debug, Clone)]
struct EnumFile {
    case: usize,
    target: Target,
    len: usize,
}

struct EnumSpace {
    cases: Vec<DocCase>,
    files: Vec<EnumFile>,
    /// cumulative number of points before file i
    starts: Vec<u64>,
    /// number of byte-level points (truncations and bit flips); token-level points follow
    byte_total: u64,
    /// source files with their tokens: (index into `files`, token byte ranges)
    tok_files: Vec<(usize, Vec<(usize, usize)>)>,
    /// cumulative number of token-level points before tok_files[i] (relative to byte_total)
    tok_starts: Vec<u64>,
    total: u64,
}

/// Token-level faults (a lost or repeated small write): per token, delete it / write it twice.
const TOKEN_KINDS: &[&str] = &["delete_token", "dup_token"];

/// Splits WAC text into lexical tokens (byte ranges); comments and strings are one token each.
fn tokens_of(src: &str) -> Vec<(usize, usize)> {
    let b = src.as_bytes();
    let mut out = Vec::new();
    let mut i = 0;
    let word = |c: u8| c.is_ascii_alphanumeric() || c == b'_' || c == b'%' || c == b'-';
    while i < b.len() {
        let c = b[i];
        if c.is_ascii_whitespace() {
            i += 1;
            continue;
        }
        let start = i;
        if c == b'/' && b.get(i + 1) == Some(&b'/') {
            while i < b.len() && b[i] != b'\n' {
                i += 1;
            }
        } else if c == b'/' && b.get(i + 1) == Some(&b'*') {
            i += 2;
            while i < b.len() && !(b[i] == b'*' && b.get(i + 1) == Some(&b'/')) {
                i += 1;
            }
            i = (i + 2).min(b.len());
        } else if c == b'"' {
            i += 1;
            while i < b.len() && b[i] != b'"' {
                i += 1;
            }
            i = (i + 1).min(b.len());
        } else if c == b'.' && b.get(i + 1) == Some(&b'.') && b.get(i + 2) == Some(&b'.') {
            i += 3;
        } else if c == b'-' && b.get(i + 1) == Some(&b'>') {
            i += 2;
        } else if word(c) && c != b'-' {
            while i < b.len() && word(b[i]) && !(b[i] == b'-' && b.get(i + 1) == Some(&b'>')) {
                i += 1;
            }
        } else if c < 0x80 {
            i += 1;
        } else {
            // one whole non-ASCII character
            i += 1;
            while i < b.len() && (b[i] & 0xC0) == 0x80 {
                i += 1;
            }
        }
        out.push((start, i));
    }
    out
}

fn mutate_token(b: &mut Vec<u8>, kind: &str, range: (usize, usize)) {
    let (a, z) = range;
    if z > b.len() || a > z {
        return;
    }
    match kind {
        "delete_token" => {
            b.drain(a..z);
        }
        _ => {
            let mut chunk = b[a..z].to_vec();
            chunk.insert(0, b' ');
            b.splice(z..z, chunk);
        }
    }
}

/// What an enumeration point denotes.
struct Point {
    /// index into `EnumSpace::files`
    file: usize,
    kind: &'static str,
    /// byte offset (byte-level kinds) or token index (token-level kinds)
    off: usize,
    bit: u8,
    token: Option<(usize, usize)>,
}

fn decode_point(sp: &EnumSpace, point: u64) -> Point {
    if point < sp.byte_total {
        let fi = match sp.starts.binary_search(&point) {
            Ok(i) => i,
            Err(i) => i - 1,
        };
        let local = point - sp.starts[fi];
        let len = sp.files[fi].len as u64;
        if local < len {
            Point { file: fi, kind: "truncate", off: local as usize, bit: 0, token: None }
        } else {
            let r = local - len;
            Point { file: fi, kind: "bitflip", off: (r / 8) as usize, bit: (r % 8) as u8, token: None }
        }
    } else {
        let rel = point - sp.byte_total;
        let ti = match sp.tok_starts.binary_search(&rel) {
            Ok(i) => i,
            Err(i) => i - 1,
        };
        let local = rel - sp.tok_starts[ti];
        let (fi, toks) = &sp.tok_files[ti];
        let n = toks.len() as u64;
        let kind = TOKEN_KINDS[(local / n) as usize % TOKEN_KINDS.len()];
        let k = (local % n) as usize;
        Point { file: *fi, kind, off: k, bit: 0, token: Some(toks[k]) }
    }
}

const MAX_ENUM_FILE: usize = 4096;

fn points_of(len: usize) -> u64 {
    // truncate@k for k in 0..len, bitflip@(k,b) for k in 0..len, b in 0..8
    (len as u64) * 9
}

fn enum_space() -> &'static EnumSpace {
    static SPACE: OnceLock<EnumSpace> = OnceLock::new();
    SPACE.get_or_init(|| {
        let mut cases: Vec<DocCase> = shipped_cases().clone();
        // one synthetic document per library component
        for p in library().iter() {
            let r = match p.version {
                Some(v) => format!("{}@{}", p.name, v),
                None => p.name.to_string(),
            };
            let is_pkg = !p.is_component;
            let source = if is_pkg {
                format!("package test:e;\nimport i: {r_first};\n", r_first = format!("{}/{}", p.name, p.exports[0]) + &p.version.map(|v| format!("@{v}")).unwrap_or_default())
            } else {
                format!("package test:e;\nlet x = new {r} {{ ... }};\nexport x...;\n")
            };
            cases.push(DocCase {
                label: format!("lib:{r}"),
                source,
                packages: vec![(p.name.to_string(), p.version.map(|v| v.to_string()), Arc::new(p.bytes.clone()))],
                probes: Vec::new(),
            });
        }
        // hand-written documents over the whole library (only their text is enumerated: the
        // library's packages are already enumerated by the `lib:` cases above)
        cases.extend(crate::gen::handwritten_cases());
        let mut files = Vec::new();
        for (ci, c) in cases.iter().enumerate() {
            if !c.source.is_empty() && c.source.len() <= MAX_ENUM_FILE {
                files.push(EnumFile { case: ci, target: Target::Source, len: c.source.len() });
            }
            if c.label.starts_with("doc:") {
                continue;
            }
            for (pi, (_, _, b)) in c.packages.iter().enumerate() {
                if !b.is_empty() && b.len() <= MAX_ENUM_FILE {
                    files.push(EnumFile { case: ci, target: Target::Package(pi), len: b.len() });
                }
            }
        }
        let mut starts = Vec::new();
        let mut total = 0u64;
        for f in &files {
            starts.push(total);
            total += points_of(f.len);
        }
        let byte_total = total;
        let mut tok_files = Vec::new();
        let mut tok_starts = Vec::new();
        for (fi, f) in files.iter().enumerate() {
            if let Target::Source = f.target {
                let toks = tokens_of(&cases[f.case].source);
                if !toks.is_empty() {
                    tok_starts.push(total - byte_total);
                    total += (toks.len() * TOKEN_KINDS.len()) as u64;
                    tok_files.push((fi, toks));
                }
            }
        }
        EnumSpace { cases, files, starts, byte_total, tok_files, tok_starts, total }
    })
}

/// Debug helper: runs the in-memory pipeline on a document against the component library.
pub fn debug_doc(source: String) -> String {
    let packages: Vec<(String, Option<Version>, Arc<Vec<u8>>)> = library()
        .iter()
        .map(|p| (p.name.to_string(), p.version.and_then(|v| Version::parse(v).ok()), Arc::new(p.bytes.clone())))
        .collect();
    match run_process(ProcSpec::new(0x14), move || pipeline_mem(source.into_bytes(), packages, "debug".into())) {
        Ok(ProcExit::Ok(f)) => format!("{:?} violation={:?}", f.triples.iter().filter(|t| !t.starts_with("decode")).collect::<Vec<_>>(), f.violation),
        Ok(ProcExit::Panic(p)) => format!("PANIC {}", p.class()),
        Err(e) => format!("harness: {e}"),
    }
}

/// Debug helper: the mutated bytes of an enumeration point (source or package).
pub fn dump_point(point: u64) -> (String, Vec<u8>) {
    let sp = enum_space();
    let pt = decode_point(sp, point);
    let file = &sp.files[pt.file];
    let case = &sp.cases[file.case];
    let mut b = match &file.target {
        Target::Source => case.source.clone().into_bytes(),
        Target::Package(pi) => case.packages[*pi].2.as_ref().clone(),
    };
    match pt.token {
        Some(r) => mutate_token(&mut b, pt.kind, r),
        None => mutate(&mut b, pt.kind, pt.off, pt.bit),
    }
    (format!("{} {:?} {}@{}.{}", case.label, file.target, pt.kind, pt.off, pt.bit), b)
}

/// Debug helper: the enumeration point of (case label, target, kind, offset, bit).
pub fn find_point(label: &str, pkg: Option<usize>, kind: &str, off: u64, bit: u64) -> Option<u64> {
    let sp = enum_space();
    for (i, f) in sp.files.iter().enumerate() {
        let c = &sp.cases[f.case];
        let target_ok = match (&f.target, pkg) {
            (Target::Source, None) => true,
            (Target::Package(a), Some(b)) => *a == b,
            _ => false,
        };
        if c.label == label && target_ok {
            if let Some(kk) = TOKEN_KINDS.iter().position(|k| *k == kind) {
                let ti = sp.tok_files.iter().position(|(fi, _)| *fi == i)?;
                let n = sp.tok_files[ti].1.len() as u64;
                return Some(sp.byte_total + sp.tok_starts[ti] + kk as u64 * n + off);
            }
            let local = if kind == "truncate" { off } else { f.len as u64 + off * 8 + bit };
            return Some(sp.starts[i] + local);
        }
    }
    None
}

pub fn enum_total() -> u64 {
    enum_space().total
}

/// The points (byte- and token-level) of the hand-written documents' sources: few enough to
/// be visited in full by the quick tier as well.
fn doc_points() -> &'static Vec<(u64, u64)> {
    static R: OnceLock<Vec<(u64, u64)>> = OnceLock::new();
    R.get_or_init(|| {
        let sp = enum_space();
        let mut v = Vec::new();
        for (i, f) in sp.files.iter().enumerate() {
            if sp.cases[f.case].label.starts_with("doc:") && matches!(f.target, Target::Source) {
                v.push((sp.starts[i], points_of(f.len)));
                if let Some(ti) = sp.tok_files.iter().position(|(fi, _)| *fi == i) {
                    let n = (sp.tok_files[ti].1.len() * TOKEN_KINDS.len()) as u64;
                    v.push((sp.byte_total + sp.tok_starts[ti], n));
                }
            }
        }
        v
    })
}

fn doc_points_total() -> u64 {
    doc_points().iter().map(|(_, n)| *n).sum()
}

fn nth_doc_point(mut k: u64) -> u64 {
    for (start, n) in doc_points() {
        if k < *n {
            return start + k;
        }
        k -= n;
    }
    0
}

const QUICK_STRIDED: u64 = 30_000;

fn to_versions(p: &Pkgs) -> Vec<(String, Option<Version>, Arc<Vec<u8>>)> {
    p.iter()
        .map(|(n, v, b)| (n.clone(), v.as_ref().and_then(|v| Version::parse(v).ok()), b.clone()))
        .collect()
}

fn run_enum_point(run: &mut Run, point: u64) {
    let sp = enum_space();
    let pt = decode_point(sp, point);
    let file = &sp.files[pt.file];
    let (kind, off, bit) = (pt.kind, pt.off, pt.bit);
    let case = &sp.cases[file.case];
    let mut source = case.source.clone().into_bytes();
    let mut packages = to_versions(&case.packages);
    let what = match &file.target {
        Target::Source => {
            match pt.token {
                Some(r) => mutate_token(&mut source, kind, r),
                None => mutate(&mut source, kind, off, bit),
            }
            "source".to_string()
        }
        Target::Package(pi) => {
            let mut b = packages[*pi].2.as_ref().clone();
            mutate(&mut b, kind, off, bit);
            let name = packages[*pi].0.clone();
            packages[*pi].2 = Arc::new(b);
            format!("package {name}")
        }
    };
    run.tape.event(format!(
        "enumeration point {point}: {} / {what}: {kind}@{off}{}",
        case.label,
        if kind == "bitflip" { format!(".{bit}") } else { String::new() }
    ));
    run.fault(kind);
    run.cover("enumerated_files", format!("{}:{}", file.case, matches!(file.target, Target::Source)));
    let tag = format!("enum:{}", case.label.rsplit('/').next().unwrap_or(""));
    finish(run, run_process(ProcSpec::new(0x14), move || pipeline_mem(source, packages, tag)));
}

fn mutate(b: &mut Vec<u8>, kind: &str, off: usize, bit: u8) {
    match kind {
        "truncate" => b.truncate(off),
        _ => {
            if off < b.len() {
                b[off] ^= 1 << bit;
            }
        }
    }
}

fn finish(run: &mut Run, out: Result<ProcExit<Findings>, String>) {
    match out {
        Err(e) => run.harness(e),
        Ok(ProcExit::Panic(p)) => {
            run.cover("panic_sites", p.location.clone());
            run.violate(
                p.class(),
                format!("the front end panicked at {}: {}", p.location, p.message),
            );
        }
        Ok(ProcExit::Ok(f)) => {
            for t in &f.triples {
                run.cover("stage_outcomes", t.clone());
            }
            run.add("ok_outputs", f.ok_outputs);
            run.add("invalid_outputs_not_judged", f.invalid_outputs_not_judged);
            run.add("diagnostics_rendered", f.diagnostics_rendered);
            run.add("spans_checked", f.spans_checked);
            let last = f.triples.last().cloned().unwrap_or_default();
            run.tape.event(format!("stages {} last {last}", f.triples.len()));
            if let Some((class, detail)) = f.violation {
                run.violate(class, detail);
            }
        }
    }
}

/// Number of sampled (tape-driven) runs per tier; indices beyond are enumeration points.
pub fn sampled_runs(tier: Tier) -> u64 {
    match tier {
        Tier::Quick => 10_000,
        Tier::Thorough => 600_000,
    }
}

/// Enumeration points visited per tier (quick: a stride through the space).
pub fn enum_runs(tier: Tier) -> u64 {
    match tier {
        Tier::Quick => QUICK_STRIDED.min(enum_total()) + doc_points_total(),
        Tier::Thorough => enum_total(),
    }
}

pub fn run(run: &mut Run) {
    let started = std::time::Instant::now();
    run_inner(run);
    // wall-clock per mode, for the evidence only (never part of the event log)
    let ms = started.elapsed().as_micros() as u64;
    let mode = run
        .cover
        .get("modes")
        .and_then(|m| m.iter().next().cloned())
        .unwrap_or_default();
    let shape = run.cover.get("shapes").and_then(|m| m.iter().next().cloned());
    run.add(&format!("wall_us:{}", shape.unwrap_or(mode)), ms);
}

fn run_inner(run: &mut Run) {
    let _ = library();
    let sampled = sampled_runs(run.tier);
    if run.index >= sampled {
        let k = run.index - sampled;
        let total = enum_total();
        let n = enum_runs(run.tier);
        // quick: evenly strided through the whole space (offset by the seed so that
        // different seeds visit different points)
        let planned = if n >= total {
            k % total
        } else if k >= QUICK_STRIDED {
            // quick: every point of the hand-written documents
            nth_doc_point(k - QUICK_STRIDED)
        } else {
            let stride = total / QUICK_STRIDED;
            (k * stride + (run.tape.draw(stride.max(1)))) % total
        };
        // the point itself goes on the tape, so a replay file names it explicitly
        let point = run.tape.draw_preset(total, planned);
        run.nontrivial = true;
        run.cover("modes", "enumeration");
        run_enum_point(run, point);
        return;
    }
    run.cover("modes", "sampled");
    let t = &mut *run.tape;
    // the first sampled runs visit every odd package once, fault-free
    let force_odd = if (run.index as usize) < ODD_PACKAGES.len() { Some(run.index as usize) } else { None };
    let mode = match force_odd {
        Some(_) => t.draw_preset(10, 0),
        None => t.draw(10),
    };
    if mode < 2 {
        // shape corpus (in memory), optionally with one fault on top
        let (label, src, pkgs) = shape(t, force_odd);
        let mut source = src.into_bytes();
        let mut packages = to_versions(&pkgs);
        t.event(format!("shape {label}: source {} bytes, {} packages", source.len(), packages.len()));
        let mut fired = Vec::new();
        if force_odd.is_none() && t.chance(1, 3) {
            let mut tree = Tree::default();
            tree.file("src", source.clone());
            for (i, (_, _, b)) in packages.iter().enumerate() {
                tree.file(format!("p{i}"), b.as_ref().clone());
            }
            if let Some((k, p)) = apply_fault(t, &mut tree, &["truncate", "bitflip", "zero_range", "dup_range"], None) {
                t.event(format!("fault {k} on {p}"));
                fired.push(k);
                if let Some(b) = tree.files.get("src") {
                    source = b.clone();
                }
                for (i, p) in packages.iter_mut().enumerate() {
                    if let Some(b) = tree.files.get(&format!("p{i}")) {
                        p.2 = Arc::new(b.clone());
                    }
                }
            }
        }
        for k in fired {
            run.fault(k);
        }
        run.nontrivial = true;
        run.cover("shapes", label.split(':').next().unwrap_or("").to_string());
        run.cover("shape_sizes", label.clone());
        let tag = format!("shape:{}", label.split(':').next().unwrap_or(""));
        finish(run, run_process(ProcSpec::new(0x14), move || pipeline_mem(source, packages, tag)));
        return;
    }
    // compose scenario on the simulated disk with a sequence of 1-4 faults
    let thorough = run.tier == Tier::Thorough;
    let mut sc = crate::props::c19::gen_compose(t, if thorough { 16 } else { 10 });
    let (src, deps_dir, overrides) = match &sc.cmd {
        crate::props::c19::Cmd::Compose(c) => (
            c.src.clone(),
            c.deps_dir.clone().unwrap_or_else(|| "deps".into()),
            c.deps.clone(),
        ),
        _ => ("src.wac".into(), "deps".into(), Vec::new()),
    };
    // mostly 1-4 faults; one run in eight is the fault-free configuration of the same scenario
    let nfaults = if t.chance(1, 8) { 0 } else { t.range(1, 4) };
    // (faults on the child's stdout belong to C19; there is no child here)
    let mut fired: Vec<(&'static str, String)> = sc.faults.iter().filter(|(k, _)| *k != "stdout_full").cloned().collect();
    for _ in 0..nfaults {
        // faults land on the source or on any stored dependency; biased to the source
        let prefer = if t.chance(1, 2) { Some(src.as_str()) } else { None };
        let mut only = Tree::default();
        for (p, b) in &sc.tree.files {
            if p != "composed.wasm" && p != "composed.wat" {
                only.file(p.clone(), b.clone());
            }
        }
        if let Some(f) = apply_fault(t, &mut only, FAULT_KINDS, prefer) {
            sc.tree.files.retain(|p, _| p == "composed.wasm" || p == "composed.wat");
            for (p, b) in only.files {
                sc.tree.files.insert(p, b);
            }
            for d in only.dirs {
                sc.tree.dirs.insert(d);
            }
            fired.push(f);
        }
    }
    t.event(format!("disk scenario [{}] deps={deps_dir} overrides={overrides:?}", sc.label));
    for (k, p) in &fired {
        t.event(format!("fault {k} on {p}"));
    }
    if let Some(src) = sc.tree.files.get(&src) {
        for l in String::from_utf8_lossy(src).lines().take(40) {
            t.event(format!("  | {l}"));
        }
    }
    for (k, _) in &fired {
        run.fault(k);
    }
    run.nontrivial = true;
    let root = run.scratch.join(format!("c14-{}", run.index));
    let _ = std::fs::remove_dir_all(&root);
    if let Err(e) = sc.tree.materialise(&root) {
        run.harness(format!("cannot materialise: {e}"));
        return;
    }
    let root2 = root.clone();
    let tag = "disk".to_string();
    finish(
        run,
        run_process(ProcSpec::new(0x14), move || pipeline_disk(root2, src, deps_dir, overrides, tag)),
    );
    let _ = std::fs::remove_dir_all(&root);
}
