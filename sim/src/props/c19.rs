//! C19 — the CLI does what the library does with the flags as documented.
//!
//! System: the built `wac` binary (from /repo, no hooks) + a disk the simulator owns
//! (seam D) + a controlled process environment (seam P, hash seed through seam H).
//! Disk faults place the failure at each pipeline stage. Oracle: the same working
//! tree's library pipeline, in-process, on the same (faulted) bytes.

use crate::cli::{apply_fault, dep_path, squash, ChildResult, Tree};
use crate::corpus::library;
use crate::engine::Run;
use crate::gen::{gen_doc, shipped_cases, DocCase};
use crate::seams::{run_process, ProcExit, ProcSpec};
use crate::tape::Tape;
use indexmap::IndexMap;
use std::collections::HashMap;
use std::path::{Path, PathBuf};
use wac_graph::{CompositionGraph, EncodeOptions};
use wac_types::{ItemKind, Package, Type, Types};

#[derive(Debug, Clone)]
pub struct ComposeCase {
    pub src: String,
    pub deps_dir: Option<String>,
    pub deps: Vec<(String, String)>,
    pub no_validate: bool,
    pub wat: bool,
    pub import_deps: bool,
    pub output: Option<String>,
}

#[derive(Debug, Clone)]
pub struct PlugCase {
    pub socket: String,
    pub plugs: Vec<String>,
    pub wat: bool,
    pub output: Option<String>,
}

#[derive(Debug, Clone)]
pub struct TargetsCase {
    pub component: String,
    pub wit: String,
    pub world: Option<String>,
}

#[derive(Debug, Clone)]
pub enum Cmd {
    Compose(ComposeCase),
    Plug(PlugCase),
    Parse(String),
    Targets(TargetsCase),
}

#[derive(Debug, Clone)]
pub struct Scenario {
    pub tree: Tree,
    /// the child's stdout is /dev/full (every write fails)
    pub stdout_full: bool,
    pub cmd: Cmd,
    pub faults: Vec<(&'static str, String)>,
    pub label: String,
}

impl Cmd {
    pub fn name(&self) -> &'static str {
        match self {
            Cmd::Compose(_) => "compose",
            Cmd::Plug(_) => "plug",
            Cmd::Parse(_) => "parse",
            Cmd::Targets(_) => "targets",
        }
    }
    pub fn args(&self) -> Vec<String> {
        let mut a: Vec<String> = Vec::new();
        match self {
            Cmd::Compose(c) => {
                a.push("compose".into());
                if let Some(d) = &c.deps_dir {
                    a.push("--deps-dir".into());
                    a.push(d.clone());
                }
                for (k, v) in &c.deps {
                    a.push("--dep".into());
                    a.push(format!("{k}={v}"));
                }
                if c.no_validate {
                    a.push("--no-validate".into());
                }
                if c.wat {
                    a.push("-t".into());
                }
                if c.import_deps {
                    a.push("--import-dependencies".into());
                }
                if let Some(o) = &c.output {
                    a.push("-o".into());
                    a.push(o.clone());
                }
                a.push(c.src.clone());
            }
            Cmd::Plug(p) => {
                a.push("plug".into());
                for pl in &p.plugs {
                    a.push("--plug".into());
                    a.push(pl.clone());
                }
                if p.wat {
                    a.push("-t".into());
                }
                if let Some(o) = &p.output {
                    a.push("-o".into());
                    a.push(o.clone());
                }
                a.push(p.socket.clone());
            }
            Cmd::Parse(src) => {
                a.push("parse".into());
                a.push(src.clone());
            }
            Cmd::Targets(t) => {
                a.push("targets".into());
                a.push("--wit".into());
                a.push(t.wit.clone());
                if let Some(w) = &t.world {
                    a.push("--world".into());
                    a.push(w.clone());
                }
                a.push(t.component.clone());
            }
        }
        a
    }
    pub fn output(&self) -> Option<&String> {
        match self {
            Cmd::Compose(c) => c.output.as_ref(),
            Cmd::Plug(p) => p.output.as_ref(),
            _ => None,
        }
    }
    pub fn flag_label(&self) -> String {
        match self {
            Cmd::Compose(c) => format!(
                "compose:{}{}{}{}{}{}",
                if c.deps_dir.is_some() { "D" } else { "d" },
                c.deps.len(),
                if c.no_validate { "N" } else { "n" },
                if c.wat { "T" } else { "t" },
                if c.import_deps { "I" } else { "i" },
                if c.output.is_some() { "O" } else { "o" }
            ),
            Cmd::Plug(p) => format!(
                "plug:{}p{}{}",
                p.plugs.len(),
                if p.wat { "T" } else { "t" },
                if p.output.is_some() { "O" } else { "o" }
            ),
            Cmd::Parse(_) => "parse".into(),
            Cmd::Targets(t) => format!("targets:{}", if t.world.is_some() { "W" } else { "w" }),
        }
    }
}

fn pick_doc(t: &mut Tape, max_statements: u64) -> DocCase {
    match t.draw(10) {
        0..=6 => gen_doc(t, max_statements),
        7 => {
            let cases = crate::gen::handwritten_cases();
            cases[t.index(cases.len())].clone()
        }
        _ => {
            let cases = shipped_cases();
            cases[t.index(cases.len())].clone()
        }
    }
}

fn output_choice(t: &mut Tape, tree: &mut Tree, ext: &str) -> Option<String> {
    match t.draw(8) {
        0..=2 => None,
        3 => Some(format!("composed.{ext}")),
        // the name of the output file must not decide its format: text requested into a
        // `.wasm` name, binary into a `.wat` name
        4 => Some(format!("composed.{}", if ext == "wat" { "wasm" } else { "wat" })),
        5 => {
            tree.dir("out");
            Some(format!("out/result.{ext}"))
        }
        6 => {
            // pre-existing output file: must be untouched on failure and replaced as a whole
            // on success (half of the time it is longer than anything the command writes)
            let old = if t.chance(1, 2) {
                b"PRE-EXISTING OUTPUT".to_vec()
            } else {
                let mut v = b"PRE-EXISTING OUTPUT ".to_vec();
                v.resize(400_000, b'#');
                v
            };
            tree.file(format!("composed.{ext}"), old);
            Some(format!("composed.{ext}"))
        }
        _ => Some(format!("no-such-dir/result.{ext}")),
    }
}

const SOURCE_FAULTS: &[&str] = &["truncate", "bitflip", "delete", "empty_file", "invalid_utf8", "insert_multibyte", "dir_in_place_of_file", "zero_range", "dup_range"];
const DEP_FAULTS: &[&str] = &[
    "truncate",
    "bitflip",
    "delete",
    "empty_file",
    "random_bytes",
    "dir_in_place_of_file",
    "core_module_in_place_of_component",
    "splice_from_other_file",
    "swap_files",
    "zero_range",
];

pub fn gen_compose(t: &mut Tape, max_statements: u64) -> Scenario {
    let doc = pick_doc(t, max_statements);
    let mut tree = Tree::default();
    tree.dir("home");
    // the source may live in another directory than the one the command runs in; relative
    // `--deps-dir` (and the default `deps`) are relative to the working directory
    let src_path = if t.chance(1, 5) { "proj/src.wac" } else { "src.wac" };
    tree.file(src_path, doc.source.clone().into_bytes());
    let deps_dir_flag = if t.chance(1, 2) { Some("pkgs".to_string()) } else { None };
    let deps = deps_dir_flag.clone().unwrap_or_else(|| "deps".to_string());
    let mut unversioned: Vec<String> = Vec::new();
    for (name, version, bytes) in &doc.packages {
        // an occasional textual package (text support is built in)
        if t.chance(1, 16) {
            if let Ok(text) = wasmprinter::print_bytes(bytes.as_ref()) {
                tree.file(dep_path(&deps, name, version.as_deref(), "wat"), text.into_bytes());
                continue;
            }
        }
        tree.file(dep_path(&deps, name, version.as_deref(), "wasm"), bytes.as_ref().clone());
        if version.is_none() {
            unversioned.push(name.clone());
        }
    }
    // --dep overrides
    let mut dep_flags = Vec::new();
    let nover = *t.pick(&[0u64, 0, 0, 1, 1, 2]);
    for i in 0..nover {
        if unversioned.is_empty() {
            break;
        }
        let name = unversioned[t.index(unversioned.len())].clone();
        if dep_flags.iter().any(|(k, _): &(String, String)| *k == name) {
            continue;
        }
        let from = dep_path(&deps, &name, None, "wasm");
        // (the value of `--dep name=path` may itself contain `=`)
        let to = if t.chance(1, 4) {
            format!("over=v2/o{i}.wasm")
        } else {
            format!("over/o{i}.wasm")
        };
        match t.draw(4) {
            0 => {
                // dangling override
                dep_flags.push((name, to));
            }
            1 => {
                // override present, original also present (override must win)
                if let Some(b) = tree.files.get(&from).cloned() {
                    // give the override a different (valid) content: another library component
                    let lib = library();
                    let other = &lib[t.index(lib.len())];
                    let _ = b;
                    tree.file(to.clone(), other.bytes.clone());
                    dep_flags.push((name, to));
                }
            }
            _ => {
                if let Some(b) = tree.files.remove(&from) {
                    tree.file(to.clone(), b);
                    dep_flags.push((name, to));
                }
            }
        }
    }
    if src_path != "src.wac" {
        // a decoy tree of the same name next to the source: other (valid) components
        let lib = library();
        let comps = crate::corpus::component_indices();
        for (name, version, _) in &doc.packages {
            if t.chance(1, 2) {
                let other = &lib[comps[t.index(comps.len())]];
                tree.file(
                    format!("proj/{}", dep_path(&deps, name, version.as_deref(), "wasm")),
                    other.bytes.clone(),
                );
            }
        }
    }
    let wat = t.chance(1, 3);
    let output = output_choice(t, &mut tree, if wat { "wat" } else { "wasm" });
    let case = ComposeCase {
        src: src_path.into(),
        deps_dir: deps_dir_flag,
        deps: dep_flags,
        no_validate: t.chance(1, 3),
        wat,
        import_deps: t.chance(1, 3),
        output,
    };
    // disk faults
    let mut faults = Vec::new();
    let nfaults = *t.pick(&[0u64, 0, 0, 1, 1, 2]);
    for _ in 0..nfaults {
        let on_source = t.chance(1, 3);
        let f = if on_source {
            let mut only: Tree = Tree::default();
            if let Some(b) = tree.files.get(src_path) {
                only.file(src_path, b.clone());
            }
            let r = apply_fault(t, &mut only, SOURCE_FAULTS, Some(src_path));
            if r.is_some() {
                tree.files.remove(src_path);
                for (p, b) in only.files {
                    tree.files.insert(p, b);
                }
                for d in only.dirs {
                    tree.dirs.insert(d);
                }
            }
            r
        } else {
            // only dependency files
            let mut depsonly = Tree::default();
            for (p, b) in &tree.files {
                if p.starts_with(&deps) || p.starts_with("over") {
                    depsonly.file(p.clone(), b.clone());
                }
            }
            let r = apply_fault(t, &mut depsonly, DEP_FAULTS, None);
            if r.is_some() {
                tree.files.retain(|p, _| !(p.starts_with(&deps) || p.starts_with("over")));
                for (p, b) in depsonly.files {
                    tree.files.insert(p, b);
                }
                for d in depsonly.dirs {
                    tree.dirs.insert(d);
                }
            }
            r
        };
        if let Some(f) = f {
            faults.push(f);
        }
    }
    // output to a full device (only meaningful when the output goes to stdout)
    let stdout_full = case.output.is_none() && t.chance(1, 8);
    if stdout_full {
        faults.push(("stdout_full", "stdout".to_string()));
    }
    Scenario {
        tree,
        stdout_full,
        cmd: Cmd::Compose(case),
        faults,
        label: doc.label,
    }
}

pub fn gen_plug(t: &mut Tape) -> Scenario {
    let lib = library();
    let comps = crate::corpus::component_indices();
    let ncomp = comps.len();
    let sockets: Vec<usize> = comps.iter().copied().filter(|i| !lib[*i].imports.is_empty()).collect();
    let si = if t.chance(9, 10) {
        sockets[t.index(sockets.len())]
    } else {
        comps[t.index(ncomp)]
    };
    let socket = &lib[si];
    let mut tree = Tree::default();
    tree.dir("home");
    tree.file("socket.wasm", socket.bytes.clone());
    let nplugs = t.range(1, 4) as usize;
    let stems = ["logger", "store", "util", "x", "my_plug", "lib.v1", "Adder"];
    let mut plugs = Vec::new();
    let mut previous_stem: Option<String> = None;
    for k in 0..nplugs {
        // bias towards components that export something the socket imports
        let candidates: Vec<usize> = comps
            .iter()
            .copied()
            .filter(|i| lib[*i].exports.iter().any(|e| socket.imports.contains(e)))
            .collect();
        let pi = if !candidates.is_empty() && t.chance(3, 4) {
            candidates[t.index(candidates.len())]
        } else {
            comps[t.index(ncomp)]
        };
        let stem = match (&previous_stem, t.draw(6)) {
            // a stem that differs from the previous one only in case or in `_` / `.` / `-`
            // (different files, different plugs: both must be registered and plugged)
            (Some(prev), 0) => {
                if prev.contains('-') {
                    prev.replace('-', "_")
                } else if prev.contains(['_', '.']) {
                    prev.replace(['_', '.'], "-")
                } else if prev.chars().next().map_or(false, |c| c.is_ascii_uppercase()) {
                    prev.to_ascii_lowercase()
                } else {
                    let mut c = prev.chars();
                    c.next().map(|f| f.to_ascii_uppercase().to_string() + c.as_str()).unwrap_or_default()
                }
            }
            (_, 1 | 2 | 3) => stems[t.index(stems.len())].to_string(),
            (Some(_), 5) => {
                // the previous `--plug` argument once more, verbatim (a glob overlapping an
                // explicit path): by the documented naming it is a second plug of that stem
                let again = plugs.last().cloned().unwrap_or_default();
                plugs.push(again);
                continue;
            }
            _ => format!("plug{k}"),
        };
        previous_stem = Some(stem.clone());
        let path = format!("p{k}/{stem}.wasm");
        tree.file(path.clone(), lib[pi].bytes.clone());
        plugs.push(path);
    }
    let wat = t.chance(1, 3);
    let output = output_choice(t, &mut tree, if wat { "wat" } else { "wasm" });
    let mut faults = Vec::new();
    if t.chance(1, 4) {
        let mut only = Tree::default();
        for (p, b) in &tree.files {
            if p.ends_with(".wasm") && !p.starts_with("composed") {
                only.file(p.clone(), b.clone());
            }
        }
        if let Some(f) = apply_fault(t, &mut only, DEP_FAULTS, Some("socket.wasm")) {
            tree.files.retain(|p, _| !(p.ends_with(".wasm") && !p.starts_with("composed")));
            for (p, b) in only.files {
                tree.files.insert(p, b);
            }
            for d in only.dirs {
                tree.dirs.insert(d);
            }
            faults.push(f);
        }
    }
    let stdout_full = output.is_none() && t.chance(1, 8);
    if stdout_full {
        faults.push(("stdout_full", "stdout".to_string()));
    }
    Scenario {
        tree,
        stdout_full,
        cmd: Cmd::Plug(PlugCase {
            socket: "socket.wasm".into(),
            plugs,
            wat,
            output,
        }),
        faults,
        label: format!("plug socket={}", socket.name),
    }
}

pub fn gen_parse(t: &mut Tape) -> Scenario {
    let doc = pick_doc(t, 12);
    let mut tree = Tree::default();
    tree.dir("home");
    tree.file("src.wac", doc.source.clone().into_bytes());
    let mut faults = Vec::new();
    if t.chance(1, 2) {
        if let Some(f) = apply_fault(t, &mut tree, SOURCE_FAULTS, Some("src.wac")) {
            faults.push(f);
        }
    }
    let stdout_full = t.chance(1, 8);
    if stdout_full {
        faults.push(("stdout_full", "stdout".to_string()));
    }
    Scenario {
        tree,
        stdout_full,
        cmd: Cmd::Parse("src.wac".into()),
        faults,
        label: doc.label,
    }
}

pub fn gen_targets(t: &mut Tape) -> Scenario {
    let lib = library();
    let comps = crate::corpus::component_indices();
    let mut tree = Tree::default();
    tree.dir("home");
    // (WIT text, its worlds, a component that conforms to one of them)
    // (WIT text, its worlds, components that conform to one of them or miss it narrowly:
    //  an extra import only, a missing export only, a mismatched type)
    let choices: [(&str, &[&str], &[&str]); 5] = [
        (crate::corpus::WIT_PACKAGES[0].2, &["app-world", "logger-world"], &["test:logger", "test:app", "test:store", "test:mixer"]),
        (crate::corpus::WIT_PACKAGES[1].2, &["util-world", "plain-world"], &["test:util", "test:plain", "test:leaf-c", "test:app11"]),
        (crate::corpus::WIT_PACKAGES_2[0].2, &["only"], &["test:plain", "test:leaf-c", "test:leaf-a"]),
        (crate::corpus::WIT_PACKAGES_2[1].2, &[], &["test:plain"]),
        (crate::corpus::WIT_PACKAGES_2[2].2, &["nav-world"], &["test:nav", "test:navimpl", "test:conflict"]),
    ];
    // one scenario in six: a WIT directory whose world refers to a package under its `deps/`
    if t.chance(1, 6) {
        tree.file("wit/main.wit", crate::corpus::DEMO_MAIN_WIT.as_bytes().to_vec());
        tree.file("wit/deps/types/api.wit", crate::corpus::DEMO_TYPES_WIT.as_bytes().to_vec());
        let name = *t.pick(&["test:deps-user", "test:deps-user", "test:plain", "test:leaf-a"]);
        let ci = lib.iter().position(|p| p.name == name).unwrap_or(comps[0]);
        tree.file("comp.wasm", lib[ci].bytes.clone());
        let world = match t.draw(4) {
            0 => None,
            1 => Some("other".to_string()),
            _ => Some("w".to_string()),
        };
        let mut faults = Vec::new();
        if t.chance(1, 5) {
            if let Some(f) = apply_fault(t, &mut tree, DEP_FAULTS, None) {
                faults.push(f);
            }
        }
        return Scenario {
            tree,
            stdout_full: false,
            cmd: Cmd::Targets(TargetsCase {
                component: "comp.wasm".into(),
                wit: "wit".into(),
                world,
            }),
            faults,
            label: format!("targets (wit dir with deps) comp={}", lib[ci].name),
        };
    }
    let (text, worlds, near) = choices[t.index(choices.len())];
    let ci = if t.chance(3, 4) {
        let name = near[t.index(near.len())];
        lib.iter().position(|p| p.name == name).unwrap_or(comps[0])
    } else {
        comps[t.index(comps.len())]
    };
    tree.file("comp.wasm", lib[ci].bytes.clone());
    let as_dir = t.chance(1, 2);
    let wit = if as_dir {
        tree.file("wit/pkg.wit", text.as_bytes().to_vec());
        "wit".to_string()
    } else {
        tree.file("world.wit", text.as_bytes().to_vec());
        "world.wit".to_string()
    };
    let world = match t.draw(6) {
        0 | 1 => None,
        2 => Some("no-such-world".to_string()),
        3 => Some("util-world".to_string()),
        _ if !worlds.is_empty() => Some(worlds[t.index(worlds.len())].to_string()),
        _ => None,
    };
    let mut faults = Vec::new();
    if t.chance(1, 4) {
        if let Some(f) = apply_fault(t, &mut tree, DEP_FAULTS, None) {
            faults.push(f);
        }
    }
    Scenario {
        tree,
        stdout_full: false,
        cmd: Cmd::Targets(TargetsCase {
            component: "comp.wasm".into(),
            wit,
            world,
        }),
        faults,
        label: format!("targets comp={}", lib[ci].name),
    }
}

pub fn gen_scenario(t: &mut Tape, max_statements: u64) -> Scenario {
    match t.draw(10) {
        0..=4 => gen_compose(t, max_statements),
        5..=7 => gen_plug(t),
        8 => gen_parse(t),
        _ => gen_targets(t),
    }
}

// ---------------------------------------------------------------------------
// Reference: the same tree's library pipeline, in-process, on the same bytes
// ---------------------------------------------------------------------------

#[derive(Debug, Clone)]
pub struct RefErr {
    pub stage: &'static str,
    /// Text that must appear in the child's stderr (whitespace-insensitive).
    pub needle: String,
}

#[derive(Debug, Clone)]
pub struct RefOk {
    /// The component binary before `-t` turns it into text (None for parse / targets).
    pub binary: Option<Vec<u8>>,
    /// What goes to stdout / the output file.
    pub bytes: Vec<u8>,
    /// Whether stdout gets a trailing newline after the bytes.
    pub newline_on_stdout: bool,
}

fn ref_compose(root: &Path, c: &ComposeCase) -> Result<RefOk, RefErr> {
    let src_path = root.join(&c.src);
    let contents = std::fs::read_to_string(&src_path).map_err(|_| RefErr {
        stage: "read-source",
        needle: format!("failed to read file `{}`", c.src),
    })?;
    let document = wac_parser::Document::parse(&contents).map_err(|e| RefErr {
        stage: "parse",
        needle: e.to_string(),
    })?;
    let mut keys = wac_resolver::packages(&document).map_err(|e| RefErr {
        stage: "discovery",
        needle: e.to_string(),
    })?;
    let deps_dir = root.join(c.deps_dir.as_deref().unwrap_or("deps"));
    let overrides: HashMap<String, PathBuf> = c
        .deps
        .iter()
        .map(|(k, v)| (k.clone(), root.join(v)))
        .collect();
    let fs = wac_resolver::FileSystemPackageResolver::new(deps_dir, overrides, false);
    let packages = fs.resolve(&keys).map_err(|e| RefErr {
        stage: "package-lookup",
        needle: e.to_string(),
    })?;
    keys.retain(|k, _| !packages.contains_key(k));
    if let Some((key, _)) = keys.first() {
        return Err(RefErr {
            stage: "package-lookup",
            needle: format!("unknown package `{}`", key.name),
        });
    }
    let resolution = document.resolve(packages).map_err(|e| RefErr {
        stage: "resolution",
        needle: e.to_string(),
    })?;
    let mut bytes = resolution
        .encode(EncodeOptions {
            define_components: !c.import_deps,
            validate: !c.no_validate,
            ..Default::default()
        })
        .map_err(|e| RefErr {
            // a composition that encodes but does not validate (only reported unless --no-validate)
            stage: if format!("{e:?}").starts_with("ValidationFailure") { "validation" } else { "encoding" },
            needle: e.to_string(),
        })?;
    let binary = bytes.clone();
    if c.wat {
        bytes = wasmprinter::print_bytes(&bytes)
            .map_err(|_| RefErr {
                stage: "print",
                needle: "failed to convert binary wasm output to text".into(),
            })?
            .into_bytes();
    }
    Ok(RefOk {
        binary: Some(binary),
        bytes,
        newline_on_stdout: c.wat,
    })
}

/// Returns (result, order_is_unambiguous).
fn ref_plug(root: &Path, p: &PlugCase) -> (Result<RefOk, RefErr>, bool) {
    // group by stem in first-occurrence order; unambiguous when that equals command-line order
    let mut groups: IndexMap<String, Vec<&String>> = IndexMap::new();
    let mut stems_in_order = Vec::new();
    for plug in &p.plugs {
        let stem = Path::new(plug)
            .file_stem()
            .map(|s| s.to_string_lossy().to_string())
            .unwrap_or_default();
        stems_in_order.push(stem.clone());
        groups.entry(stem).or_default().push(plug);
    }
    let grouped_order: Vec<&String> = groups.values().flatten().copied().collect();
    let unambiguous = grouped_order.iter().zip(p.plugs.iter()).all(|(a, b)| *a == b);
    let run = || -> Result<RefOk, RefErr> {
        let mut graph = CompositionGraph::new();
        let socket = std::fs::read(root.join(&p.socket)).map_err(|_| RefErr {
            stage: "read",
            needle: format!("failed to read socket component `{}`", p.socket),
        })?;
        let socket = Package::from_bytes("socket", None, socket, graph.types_mut()).map_err(|e| RefErr {
            stage: "decode",
            needle: e.to_string(),
        })?;
        let socket = graph.register_package(socket).map_err(|e| RefErr {
            stage: "graph",
            needle: e.to_string(),
        })?;
        let mut ids = Vec::new();
        for (stem, plugs) in &groups {
            for (i, plug) in plugs.iter().enumerate() {
                let mut name = format!("plug:{stem}");
                if plugs.len() > 1 {
                    name.push_str(&i.to_string());
                }
                // Package::from_file = read + from_bytes; read here so that the expected
                // message names the path as the command line spelled it
                let bytes = std::fs::read(root.join(plug)).map_err(|_| RefErr {
                    stage: "read",
                    needle: format!("failed to read `{plug}`"),
                })?;
                let pkg = Package::from_bytes(&name, None, bytes, graph.types_mut()).map_err(|e| RefErr {
                    stage: "decode",
                    needle: e.to_string(),
                })?;
                ids.push(graph.register_package(pkg).map_err(|e| RefErr {
                    stage: "graph",
                    needle: e.to_string(),
                })?);
            }
        }
        wac_graph::plug(&mut graph, ids, socket).map_err(|e| RefErr {
            stage: "plug",
            needle: e.to_string(),
        })?;
        let mut bytes = graph.encode(EncodeOptions::default()).map_err(|e| RefErr {
            stage: "encoding",
            needle: e.to_string(),
        })?;
        let binary = bytes.clone();
        if p.wat {
            bytes = wasmprinter::print_bytes(&bytes)
                .map_err(|_| RefErr {
                    stage: "print",
                    needle: "failed to convert binary wasm output to text".into(),
                })?
                .into_bytes();
        }
        Ok(RefOk {
            binary: Some(binary),
            bytes,
            newline_on_stdout: p.wat,
        })
    };
    (run(), unambiguous)
}

fn ref_parse(root: &Path, src: &str) -> Result<RefOk, RefErr> {
    let contents = std::fs::read_to_string(root.join(src)).map_err(|_| RefErr {
        stage: "read-source",
        needle: format!("failed to read file `{src}`"),
    })?;
    let document = wac_parser::Document::parse(&contents).map_err(|e| RefErr {
        stage: "parse",
        needle: e.to_string(),
    })?;
    let mut bytes = serde_json::to_vec_pretty(&document).map_err(|e| RefErr {
        stage: "serialize",
        needle: e.to_string(),
    })?;
    bytes.push(b'\n');
    Ok(RefOk {
        binary: None,
        bytes,
        newline_on_stdout: false,
    })
}

fn ref_targets(root: &Path, t: &TargetsCase) -> Result<RefOk, RefErr> {
    let fail = |stage: &'static str, e: String| RefErr { stage, needle: e };
    let mut types = Types::default();
    let path = root.join(&t.wit);
    let mut resolve = wit_parser::Resolve::new();
    // (messages of WIT parse failures spell the path; only "some diagnostic" is demanded)
    let pkg = if path.is_dir() {
        resolve.push_dir(&path).map_err(|_| fail("wit", String::new()))?.0
    } else {
        resolve.push_path(&path).map_err(|_| fail("wit", String::new()))?.0
    };
    let wit_bytes = wit_component::encode(&resolve, pkg).map_err(|_| {
        fail(
            "wit",
            format!("failed to encode WIT package from `{}`", t.wit),
        )
    })?;
    let wit = Package::from_bytes("wit", None, wit_bytes, &mut types).map_err(|e| fail("wit", e.to_string()))?;
    let component_bytes = std::fs::read(root.join(&t.component))
        .map_err(|_| fail("read", format!("failed to read file `{}`", t.component)))?;
    let component = Package::from_bytes("component", None, component_bytes, &mut types)
        .map_err(|e| fail("decode", e.to_string()))?;
    let top = &types[wit.ty()];
    let world = match t.world.as_deref() {
        Some(name) => top
            .exports
            .get(name)
            .ok_or_else(|| fail("world", format!("wit package did not contain a world named '{name}'")))?,
        None if top.exports.len() == 1 => top.exports.values().next().unwrap(),
        None if top.exports.len() > 1 => {
            return Err(fail(
                "world",
                "wit package has multiple worlds, please specify one with the --world flag".into(),
            ))
        }
        None => return Err(fail("world", "wit package did not contain a world".into())),
    };
    let ItemKind::Type(Type::World(world_id)) = world else {
        return Err(fail("world", "wit package was not encoded properly".into()));
    };
    let Some(ItemKind::Component(w)) = types[*world_id].exports.values().next() else {
        return Err(fail("world", "wit package was not encoded properly".into()));
    };
    wac_types::validate_target(&types, *w, component.ty()).map_err(|e| fail("verdict", e.to_string()))?;
    Ok(RefOk {
        binary: None,
        bytes: Vec::new(),
        newline_on_stdout: false,
    })
}

pub struct Reference {
    pub result: Result<RefOk, RefErr>,
    pub bytes_comparable: bool,
}

pub fn reference(root: &Path, cmd: &Cmd) -> Reference {
    match cmd {
        Cmd::Compose(c) => Reference {
            result: ref_compose(root, c),
            bytes_comparable: true,
        },
        Cmd::Plug(p) => {
            let (result, unambiguous) = ref_plug(root, p);
            Reference {
                result,
                bytes_comparable: unambiguous,
            }
        }
        Cmd::Parse(s) => Reference {
            result: ref_parse(root, s),
            bytes_comparable: true,
        },
        Cmd::Targets(t) => Reference {
            result: ref_targets(root, t),
            bytes_comparable: true,
        },
    }
}

/// Top-level imports, exports, instantiations (component index + argument names and kinds)
/// and aliases of a component, in order.
fn component_shape(bytes: &[u8]) -> Vec<String> {
    use wasmparser::{ComponentInstance, Parser, Payload};
    let mut out = Vec::new();
    let mut depth = 0i32;
    for payload in Parser::new(0).parse_all(bytes) {
        let Ok(payload) = payload else {
            out.push("<parse error>".to_string());
            break;
        };
        match payload {
            Payload::ModuleSection { .. } | Payload::ComponentSection { .. } => depth += 1,
            Payload::End(_) => depth -= 1,
            Payload::ComponentImportSection(s) if depth == 0 => {
                for i in s.into_iter().flatten() {
                    out.push(format!("import {} {:?}", i.name.0, std::mem::discriminant(&i.ty)));
                }
            }
            Payload::ComponentExportSection(s) if depth == 0 => {
                for e in s.into_iter().flatten() {
                    out.push(format!("export {} {:?} {}", e.name.0, e.kind, e.index));
                }
            }
            Payload::ComponentInstanceSection(s) if depth == 0 => {
                for i in s.into_iter().flatten() {
                    match i {
                        ComponentInstance::Instantiate { component_index, args } => {
                            let args: Vec<String> = args
                                .iter()
                                .map(|a| format!("{}={:?}:{}", a.name, a.kind, a.index))
                                .collect();
                            out.push(format!("instantiate {component_index} [{}]", args.join(", ")));
                        }
                        ComponentInstance::FromExports(ex) => {
                            out.push(format!("instance-from-exports {}", ex.len()));
                        }
                    }
                }
            }
            Payload::ComponentAliasSection(s) if depth == 0 => {
                for a in s.into_iter().flatten() {
                    out.push(format!("alias {a:?}"));
                }
            }
            _ => {}
        }
    }
    out
}

fn snapshot_output(root: &Path, out: Option<&String>) -> Option<Vec<u8>> {
    out.and_then(|o| std::fs::read(root.join(o)).ok())
}

fn describe_child(c: &ChildResult) -> String {
    format!(
        "exit={:?} signal={:?} stdout={}B stderr=`{}`",
        c.code,
        c.signal,
        c.stdout.len(),
        String::from_utf8_lossy(&c.stderr).chars().take(400).collect::<String>().replace('\n', "⏎")
    )
}

/// Seam S plan for one run (None: one run in two). Kinds that only perturb *how* a system
/// call completes (short transfers, EINTR) leave the oracle unchanged; kinds that make it fail
/// are judged by the relaxed rules in `run`.
fn gen_io_plan(t: &mut crate::tape::Tape) -> Option<String> {
    if !t.chance(1, 2) {
        return None;
    }
    let mut items: Vec<String> = Vec::new();
    if t.chance(1, 2) {
        items.push(format!("short_write={}", t.pick(&[1u64, 7, 64, 1000, 4096])));
    }
    if t.chance(1, 2) {
        items.push(format!("short_read={}", t.pick(&[1u64, 5, 64, 1024])));
    }
    if t.chance(1, 2) {
        items.push(format!("eintr={}", t.range(2, 5)));
    }
    if t.chance(1, 2) || items.is_empty() {
        match t.draw(4) {
            0 | 1 => {
                // where the device fills up is placed relative to the length of the output the
                // run is going to write (`run` substitutes it): at once, a few bytes before the
                // end (inside whatever the process still buffers), somewhere in the middle
                let spec = match t.draw(5) {
                    0 => "abs:0".to_string(),
                    1 | 2 => format!("end:{}", t.range(1, 40)),
                    3 => format!("frac:{}", t.range(0, 999)),
                    _ => format!("abs:{}", t.range(1, 3000)),
                };
                items.push(format!("enospc_after={spec}"));
            }
            2 => items.push(format!("eio_read={}", t.range(1, 8))),
            _ => items.push(format!("open_fail={}", t.range(1, 6))),
        }
    }
    Some(items.join(","))
}

pub fn run(run: &mut Run) {
    let _ = library();
    let thorough = run.tier == crate::engine::Tier::Thorough;
    let root = run.scratch.join(format!("r{}", run.index));
    let _ = std::fs::remove_dir_all(&root);
    let t = &mut *run.tape;
    let sc = gen_scenario(t, if thorough { 16 } else { 10 });
    let hash_seed = t.draw(u64::MAX);
    let args = sc.cmd.args();
    t.event(format!("scenario {} [{}]", sc.cmd.name(), sc.label));
    t.event(format!("argv: wac {}", args.join(" ")));
    for (k, p) in &sc.faults {
        t.event(format!("disk fault {k} on {p}"));
    }
    t.event(format!(
        "tree: {} files, {} dirs",
        sc.tree.files.len(),
        sc.tree.dirs.len()
    ));
    if let Some(src) = sc.tree.files.get("src.wac").or_else(|| sc.tree.files.get("proj/src.wac")) {
        for l in String::from_utf8_lossy(src).lines().take(60) {
            t.event(format!("  | {l}"));
        }
    }
    for (k, _) in &sc.faults {
        run.fault(k);
    }
    run.nontrivial = true;
    if let Err(e) = sc.tree.materialise(&root) {
        run.harness(format!("cannot materialise scratch tree: {e}"));
        return;
    }
    // seam S: system-call faults inside the child (drawn after everything else so that the
    // scenario part of a tape keeps its meaning)
    let mut io_plan = if sc.stdout_full { None } else { gen_io_plan(run.tape) };
    if let Some(p) = io_plan.clone() {
        if let Some(at) = p.find("enospc_after=") {
            // length of the output this invocation is going to write, from the library pipeline
            // on the same tree (only used to place the fault; the verdict uses the reference
            // computed after the child, as in every other run)
            let cmd2 = sc.cmd.clone();
            let root2 = root.clone();
            let expected_len = match run_process(ProcSpec::new(0x19), move || reference(&root2, &cmd2)) {
                Ok(ProcExit::Ok(r)) => match &r.result {
                    Ok(ok) => ok.bytes.len() as u64 + u64::from(sc.cmd.output().is_none() && ok.newline_on_stdout),
                    Err(_) => 0,
                },
                _ => 0,
            };
            let spec: String = p[at + "enospc_after=".len()..].chars().take_while(|c| *c != ',').collect();
            let (mode, n) = spec.split_once(':').unwrap_or(("abs", "0"));
            let n: u64 = n.parse().unwrap_or(0);
            let b = match mode {
                "end" => expected_len.saturating_sub(n),
                "frac" => expected_len * n / 1000,
                _ => n,
            };
            io_plan = Some(p.replace(&format!("enospc_after={spec}"), &format!("enospc_after={b}")));
        }
    }
    if let Some(p) = &io_plan {
        run.tape.event(format!("io plan: {p}"));
    }
    let report = run.scratch.join(format!("r{}.io", run.index));
    let out_path = sc.cmd.output().cloned();
    let before = snapshot_output(&root, out_path.as_ref());
    let child = match crate::cli::run_wac_plan(
        &root,
        &args,
        hash_seed,
        30,
        sc.stdout_full,
        io_plan.as_deref().map(|p| (p, report.as_path())),
    ) {
        Ok(c) => c,
        Err(e) => {
            run.harness(format!("cannot run the wac binary: {e}"));
            let _ = std::fs::remove_dir_all(&root);
            return;
        }
    };
    let after = snapshot_output(&root, out_path.as_ref());
    let io_fired: std::collections::BTreeSet<String> = std::fs::read_to_string(&report)
        .unwrap_or_default()
        .lines()
        .map(|l| l.trim().to_string())
        .filter(|l| !l.is_empty())
        .collect();
    let _ = std::fs::remove_file(&report);
    for k in &io_fired {
        run.fault(k);
    }
    if !io_fired.is_empty() {
        run.tape.event(format!("io fired: {}", io_fired.iter().cloned().collect::<Vec<_>>().join(" ")));
    }
    // stderr is recorded without its digits: a panicking child prints its OS thread id
    // (`thread 'main' (4520) panicked`), whose *length* differs from process to process
    run.tape.event(format!(
        "child: exit={:?} signal={:?} stdout={}B stderr={}B (digits not counted)",
        child.code,
        child.signal,
        child.stdout.len(),
        child.stderr.iter().filter(|b| !b.is_ascii_digit()).count()
    ));
    if child.signal.is_some() || child.timed_out {
        // a crash of the pipeline on these bytes is C14's subject, not a CLI/library divergence
        run.probe("child_signal_not_judged");
        run.cover("cells", format!("{}|crash", sc.cmd.flag_label()));
        let _ = std::fs::remove_dir_all(&root);
        return;
    }

    // Faults that make a system call *fail* (full device, bad sector, refused open): the
    // relaxation is narrow. A run that says "success" must still be right in full (checked
    // below like any other run); a run that fails must say why and, when the fault hit an
    // input, must leave the output path alone. Nothing else is asked of it.
    let inv0 = format!("wac {}", args.join(" "));
    if io_fired.contains("enospc") {
        run.cover("stages", format!("{}:device-full", sc.cmd.name()));
        if child.code == Some(0) {
            run.violate(
                "exit-mismatch",
                format!(
                    "`{inv0}` exited 0 although the device filled up while it was writing its output ({}); {}",
                    io_plan.clone().unwrap_or_default(),
                    describe_child(&child)
                ),
            );
        } else if String::from_utf8_lossy(&child.stderr).trim().is_empty() {
            run.violate(
                "missing-diagnostic",
                format!("`{inv0}` failed on a full device but printed no diagnostic; {}", describe_child(&child)),
            );
        }
        let _ = std::fs::remove_dir_all(&root);
        return;
    }
    let input_fault = io_fired.contains("eio_read") || io_fired.contains("open_fail");
    if input_fault && child.code != Some(0) {
        run.cover("stages", format!("{}:input-io-error", sc.cmd.name()));
        if String::from_utf8_lossy(&child.stderr).trim().is_empty() {
            run.violate(
                "missing-diagnostic",
                format!("`{inv0}` failed on an unreadable input but printed no diagnostic; {}", describe_child(&child)),
            );
        } else if before != after {
            run.violate(
                "outfile-on-failure",
                format!(
                    "`{inv0}` failed on an unreadable input but the output path changed: before {:?} bytes, after {:?} bytes",
                    before.as_ref().map(|b| b.len()),
                    after.as_ref().map(|b| b.len())
                ),
            );
        }
        let _ = std::fs::remove_dir_all(&root);
        return;
    }
    if input_fault {
        run.probe("input_fault_survived");
    }

    // reference in a simulated process with the stack the real main thread has
    let cmd2 = sc.cmd.clone();
    let root2 = root.clone();
    let reference = match run_process(ProcSpec::new(0x19), move || reference(&root2, &cmd2)) {
        Ok(ProcExit::Ok(r)) => r,
        Ok(ProcExit::Panic(p)) => {
            // the library panicked where the CLI did not crash by signal: the CLI must have failed too
            run.probe("reference_panic");
            if child.code == Some(0) {
                run.violate(
                    "exit-mismatch",
                    format!(
                        "library pipeline panicked at {} ({}) but `wac {}` exited 0",
                        p.location,
                        p.message,
                        args.join(" ")
                    ),
                );
            }
            let _ = std::fs::remove_dir_all(&root);
            return;
        }
        Err(e) => {
            run.harness(e);
            return;
        }
    };

    let stage = match &reference.result {
        Ok(_) => "success",
        Err(e) => e.stage,
    };
    run.cover("cells", format!("{}|{}", sc.cmd.flag_label(), stage));
    run.cover("stages", format!("{}:{}", sc.cmd.name(), stage));
    run.probe(&format!("stage:{}:{}", sc.cmd.name(), stage));
    run.tape.event(format!("reference: {stage}"));
    let inv = format!("wac {}", args.join(" "));

    match &reference.result {
        Ok(ok) => {
            // a write into a missing directory fails after a successful pipeline
            let write_must_fail = out_path
                .as_ref()
                .map(|o| {
                    let p = root.join(o);
                    p.parent().map(|d| !d.is_dir()).unwrap_or(false) || p.is_dir()
                })
                .unwrap_or(false);
            let stdout_must_fail = sc.stdout_full && out_path.is_none() && !(ok.bytes.is_empty() && !ok.newline_on_stdout);
            if stdout_must_fail {
                run.cover("stages", format!("{}:stdout-write-failure", sc.cmd.name()));
                run.probe("stdout_full_with_output");
                if child.code == Some(0) {
                    run.violate(
                        "exit-mismatch",
                        format!(
                            "`{inv}` exited 0 although none of its {} output bytes could be written to stdout (stdout is a full device); {}",
                            ok.bytes.len(),
                            describe_child(&child)
                        ),
                    );
                } else if String::from_utf8_lossy(&child.stderr).trim().is_empty() {
                    run.violate(
                        "missing-diagnostic",
                        format!("`{inv}` failed to write to stdout but printed no diagnostic; {}", describe_child(&child)),
                    );
                }
            } else if write_must_fail {
                run.cover("stages", format!("{}:write-failure", sc.cmd.name()));
                if child.code == Some(0) {
                    run.violate(
                        "exit-mismatch",
                        format!("`{inv}` exited 0 although the output path cannot be written; {}", describe_child(&child)),
                    );
                } else if !squash(&String::from_utf8_lossy(&child.stderr)).contains(&squash("failed to write output file")) {
                    run.violate(
                        "missing-diagnostic",
                        format!("`{inv}` failed to write its output but did not say so; {}", describe_child(&child)),
                    );
                }
            } else if child.code != Some(0) {
                run.violate(
                    "exit-mismatch",
                    format!(
                        "library pipeline succeeds ({} bytes) but `{inv}` failed; {}",
                        ok.bytes.len(),
                        describe_child(&child)
                    ),
                );
            } else {
                let (got, what): (Vec<u8>, &str) = match &out_path {
                    Some(_) => (after.clone().unwrap_or_default(), "output file"),
                    None => (child.stdout.clone(), "stdout"),
                };
                let mut want = ok.bytes.clone();
                if out_path.is_none() && ok.newline_on_stdout {
                    want.push(b'\n');
                }
                if out_path.is_some() && after.is_none() {
                    run.violate(
                        "outfile-missing",
                        format!("`{inv}` exited 0 but wrote no output file"),
                    );
                } else if out_path.is_some() && !child.stdout.is_empty() {
                    run.violate(
                        "outfile≠stdout",
                        format!("`{inv}` wrote {} bytes to stdout although -o was given", child.stdout.len()),
                    );
                } else if reference.bytes_comparable {
                    if got != want {
                        let is_text = matches!(&sc.cmd, Cmd::Compose(c) if c.wat) || matches!(&sc.cmd, Cmd::Plug(p) if p.wat);
                        run.violate(
                            if is_text { "text-mismatch" } else { "bytes-mismatch" },
                            format!(
                                "`{inv}`: {what} has {} bytes, the library pipeline with the documented flag mapping gives {} bytes (first difference at byte {})",
                                got.len(),
                                want.len(),
                                got.iter().zip(want.iter()).position(|(a, b)| a != b).unwrap_or(got.len().min(want.len()))
                            ),
                        );
                    }
                } else {
                    run.probe("plug_order_ambiguous_bytes_not_compared");
                }
                // -t: the text assembles to a valid component and prints back to itself
                let is_text = matches!(&sc.cmd, Cmd::Compose(c) if c.wat) || matches!(&sc.cmd, Cmd::Plug(p) if p.wat);
                if is_text && run.violation.is_none() {
                    let text = String::from_utf8_lossy(&got).to_string();
                    match wat::parse_str(&text) {
                        Err(e) => run.violate(
                            "text-does-not-assemble",
                            format!("`{inv}`: the printed text does not assemble: {e}"),
                        ),
                        Ok(bin) => {
                            let no_validate = matches!(&sc.cmd, Cmd::Compose(c) if c.no_validate);
                            let valid = wasmparser::Validator::new_with_features(wasmparser::WasmFeatures::all())
                                .validate_all(&bin)
                                .is_ok();
                            if !valid && !no_validate {
                                run.violate(
                                    "text-does-not-assemble",
                                    format!("`{inv}`: the printed text assembles to an invalid component"),
                                );
                            }
                            // identical interface and wiring: top-level imports, exports,
                            // instantiations (with argument names) and aliases of the assembled
                            // text equal those of the binary the library produced
                            if let Some(reference_binary) = &ok.binary {
                                let a = component_shape(&bin);
                                let b = component_shape(reference_binary);
                                if a != b {
                                    let at = a.iter().zip(b.iter()).position(|(x, y)| x != y).unwrap_or(a.len().min(b.len()));
                                    run.violate(
                                        "text-mismatch",
                                        format!(
                                            "`{inv}`: the printed text assembles to a component whose interface / wiring differs from the library's binary at item {at}: `{}` vs `{}`",
                                            a.get(at).cloned().unwrap_or_default(),
                                            b.get(at).cloned().unwrap_or_default()
                                        ),
                                    );
                                }
                            }
                            run.probe("text_outputs_assembled");
                        }
                    }
                }
            }
        }
        Err(e) => {
            if child.code == Some(0) {
                run.violate(
                    "exit-mismatch",
                    format!(
                        "library pipeline fails at {} (`{}`) but `{inv}` exited 0; {}",
                        e.stage,
                        e.needle.lines().next().unwrap_or(""),
                        describe_child(&child)
                    ),
                );
            } else {
                let stderr = String::from_utf8_lossy(&child.stderr).to_string();
                if stderr.trim().is_empty() {
                    run.violate(
                        "missing-diagnostic",
                        format!("`{inv}` exited {:?} without printing a diagnostic", child.code),
                    );
                } else if !squash(&stderr).contains(&squash(&e.needle)) {
                    run.violate(
                        "missing-diagnostic",
                        format!(
                            "`{inv}` failed, but its diagnostic does not contain the library's error `{}` (stage {}); {}",
                            e.needle.lines().next().unwrap_or(""),
                            e.stage,
                            describe_child(&child)
                        ),
                    );
                }
                if before != after {
                    run.violate(
                        "outfile-on-failure",
                        format!(
                            "`{inv}` failed (stage {}) but the output path changed: before {:?} bytes, after {:?} bytes",
                            e.stage,
                            before.as_ref().map(|b| b.len()),
                            after.as_ref().map(|b| b.len())
                        ),
                    );
                }
                if !child.stdout.is_empty() && !matches!(sc.cmd, Cmd::Parse(_)) {
                    run.probe("stdout_on_failure");
                }
            }
        }
    }
    let _ = std::fs::remove_dir_all(&root);
}
