//! C20 — registry resolution returns the right content for every requested key.
//!
//! Real `RegistryPackageResolver::resolve` (real `FuturesUnordered`, `IndexMap`,
//! `fs::read`) on a discrete-event executor owned by the simulator, against a
//! reference registry behind seam R (`wac_resolver::verif_seam`).

use crate::engine::Run;
use indexmap::IndexMap;
use miette::SourceSpan;
use semver::{Version, VersionReq};
use std::cell::RefCell;
use std::collections::{BTreeMap, BinaryHeap};
use std::cmp::Reverse;
use std::future::Future;
use std::path::PathBuf;
use std::pin::Pin;
use std::rc::Rc;
use std::sync::{Arc, Mutex};
use std::task::{Context, Poll, Wake, Waker};
use wac_resolver::verif_seam::{self, BoxFut, ClientError, PackageDownload, SimRegistry};
use wac_resolver::{Error, ProgressBar, RegistryPackageResolver};
use wac_types::BorrowedPackageKey;
use warg_protocol::registry::PackageName;

// ---------------------------------------------------------------------------
// Reference registry (the stub behind seam R, and the oracle's model)
// ---------------------------------------------------------------------------

pub use crate::regmodel::{Registry, Release};
use crate::regmodel::{verdict, Verdict};

const NAME_POOL: &[&str] = &["test:a", "test:b", "ns:pkg-c", "x:y", "foo:bar-baz"];
const ABSENT_POOL: &[&str] = &["test:missing", "gone:pkg", "test:zzz"];
const INVALID_POOL: &[&str] = &["nocolon", "a:b:c", "Up:case", ":x", "a:", "a b:c"];
const VERSION_POOL: &[&str] = &[
    "0.1.0",
    "0.2.0",
    "1.0.0",
    "1.0.1",
    "1.1.0",
    "2.0.0",
    "2.0.0-rc.1",
    "3.0.0-beta.2",
    "10.0.0",
];

/// Content published for (name, version): unique per pair, deterministic.
pub fn content_for(name: &str, version: &Version) -> Vec<u8> {
    let mut s = format!("\0asm-content-of {name}@{version}\n");
    let mut h = 0xcbf29ce484222325u64;
    for b in s.bytes() {
        h = (h ^ b as u64).wrapping_mul(0x100000001b3);
    }
    let extra = (h % 700) as usize;
    for i in 0..extra {
        s.push((b'a' + ((h >> (i % 48)) as u8 % 26)) as char);
    }
    s.into_bytes()
}

fn content_path(dir: &PathBuf, name: &str, version: &Version) -> PathBuf {
    dir.join(format!("{}@{}", name.replace(':', "_"), version))
}

/// Writes the content pool once per worker.
pub fn ensure_content_pool(dir: &PathBuf) -> std::io::Result<()> {
    let marker = dir.join(".complete");
    if marker.exists() {
        return Ok(());
    }
    std::fs::create_dir_all(dir)?;
    for name in NAME_POOL {
        for v in VERSION_POOL {
            let v = Version::parse(v).unwrap();
            std::fs::write(content_path(dir, name, &v), content_for(name, &v))?;
        }
    }
    std::fs::write(marker, b"")?;
    Ok(())
}

// ---------------------------------------------------------------------------
// Discrete-event executor + simulated transport
// ---------------------------------------------------------------------------

struct TaskWaker {
    id: usize,
    queue: Arc<Mutex<Vec<usize>>>,
}

impl Wake for TaskWaker {
    fn wake(self: Arc<Self>) {
        self.queue.lock().unwrap().push(self.id);
    }
    fn wake_by_ref(self: &Arc<Self>) {
        self.queue.lock().unwrap().push(self.id);
    }
}

enum Answer {
    Fetch(Result<(), ClientError>),
    Exact(Result<PackageDownload, ClientError>),
    Latest(Result<Option<PackageDownload>, ClientError>),
}

struct ReqSlot {
    answer: Option<Answer>,
    waker: Option<Waker>,
}

struct ReqFuture<T> {
    slot: Rc<RefCell<ReqSlot>>,
    take: fn(Answer) -> T,
}

impl<T> Future for ReqFuture<T> {
    type Output = T;
    fn poll(self: Pin<&mut Self>, cx: &mut Context<'_>) -> Poll<T> {
        let mut slot = self.slot.borrow_mut();
        match slot.answer.take() {
            Some(a) => Poll::Ready((self.take)(a)),
            None => {
                slot.waker = Some(cx.waker().clone());
                Poll::Pending
            }
        }
    }
}

#[derive(Debug, Clone)]
enum ReqKind {
    Fetch(Vec<String>),
    Exact(String, Version),
    Latest(String, VersionReq),
}

struct Pending {
    id: usize,
    kind: ReqKind,
    slot: Rc<RefCell<ReqSlot>>,
    /// task that issued the request (for the trace)
    issued_in: usize,
}

#[derive(Debug, Clone, Default)]
pub struct FaultPlan {
    pub fetch_error: u64,    // chance per 1000 that a fetch fails
    pub download_error: u64, // chance per 1000 that a download fails in transit
    pub content_lost: u64,   // chance per 1000 that the reported path is unreadable
    pub task_abort: u64,     // chance per 1000 per poll opportunity that a spawned task is dropped
    pub slow_node: u64,      // chance per 1000 that a request is stalled (x1000 latency)
    pub dup_poll: u64,       // chance per 1000 per step of a spurious poll
}

#[derive(Debug, Clone, Copy, PartialEq)]
enum Flavour {
    Random,
    Fifo,
    Lifo,
    /// one task is starved until nothing else can run
    Starve(usize),
}

struct SimState {
    registry: Registry,
    content_dir: PathBuf,
    tasks: Vec<Option<BoxFut<()>>>, // index 0 is reserved for the root (held outside)
    ready: Vec<usize>,
    timers: BinaryHeap<(Reverse<u64>, Reverse<u64>, usize)>, // (time, seq, pending index)
    pending: Vec<Option<Pending>>,
    now: u64,
    seq: u64,
    current_task: usize,
    plan: FaultPlan,
    base_latency: u64,
    jitter: u64,
    per_byte: u64,
    /// requests in the order they were issued / completed (download requests only)
    issue_order: Vec<usize>,
    complete_order: Vec<usize>,
    fetched: Vec<String>,
    /// the client's stored package logs (refreshed by fetch_packages; downloads answer from them)
    client_logs: BTreeMap<String, Vec<Release>>,
    fired: Vec<(String, String)>, // (fault kind, what)
    events: Vec<String>,
    /// draws requested by the transport are served through this queue of pre-drawn values
    lost_counter: u64,
}

pub struct Sim {
    st: RefCell<SimState>,
    tape: RefCell<*mut crate::tape::Tape>,
}

impl Sim {
    fn draw(&self, n: u64) -> u64 {
        // SAFETY: the tape outlives the Sim (both live inside `run`), single thread.
        unsafe { (**self.tape.borrow()).draw(n) }
    }
    fn chance(&self, per_mille: u64) -> bool {
        if per_mille == 0 {
            false
        } else {
            unsafe { (**self.tape.borrow()).chance(per_mille, 1000) }
        }
    }
    fn event(&self, e: String) {
        unsafe { (**self.tape.borrow()).event(&e) }
        self.st.borrow_mut().events.push(e);
    }

    fn issue(&self, kind: ReqKind, size_hint: u64) -> Rc<RefCell<ReqSlot>> {
        let slot = Rc::new(RefCell::new(ReqSlot {
            answer: None,
            waker: None,
        }));
        let mut latency = {
            let st = self.st.borrow();
            st.base_latency + st.per_byte * size_hint
        };
        let jitter = self.st.borrow().jitter;
        latency += self.draw(jitter + 1);
        let slow = self.st.borrow().plan.slow_node;
        if self.chance(slow) {
            latency = latency * 1000 + 1;
            self.st
                .borrow_mut()
                .fired
                .push(("slow_node".into(), format!("{kind:?}")));
        }
        let mut st = self.st.borrow_mut();
        let id = st.pending.len();
        let issued_in = st.current_task;
        if !matches!(kind, ReqKind::Fetch(_)) {
            st.issue_order.push(id);
        }
        let t = st.now + latency;
        st.seq += 1;
        let seq = st.seq;
        st.timers.push((Reverse(t), Reverse(seq), id));
        st.pending.push(Some(Pending {
            id,
            kind: kind.clone(),
            slot: slot.clone(),
            issued_in,
        }));
        drop(st);
        self.event(format!("issue r{id} {kind:?} in t{issued_in} due@{t}"));
        slot
    }

    /// Completes request `p` with the answer decided at fire time.
    fn fire(&self, p: Pending) {
        let answer = match &p.kind {
            ReqKind::Fetch(names) => {
                let plan_err = self.st.borrow().plan.fetch_error;
                if self.chance(plan_err) {
                    self.st
                        .borrow_mut()
                        .fired
                        .push(("fetch_error".into(), format!("{names:?}")));
                    Answer::Fetch(Err(ClientError::Other(
                        "simulated: registry unreachable while updating logs".into(),
                    )))
                } else {
                    let missing: Vec<String> = {
                        let st = self.st.borrow();
                        names
                            .iter()
                            .filter(|n| !st.registry.packages.contains_key(*n))
                            .cloned()
                            .collect()
                    };
                    if missing.is_empty() {
                        // the client stores the refreshed logs; later downloads answer from them
                        let mut st = self.st.borrow_mut();
                        for n in names {
                            let rels = st.registry.packages.get(n).cloned().unwrap_or_default();
                            st.client_logs.insert(n.clone(), rels);
                        }
                        st.fetched.extend(names.iter().cloned());
                        drop(st);
                        Answer::Fetch(Ok(()))
                    } else {
                        // which missing name the server reports first is unspecified
                        let i = self.draw(missing.len() as u64) as usize;
                        Answer::Fetch(Err(ClientError::PackageDoesNotExist {
                            name: PackageName::new(missing[i].clone()).unwrap(),
                            has_auth_token: false,
                        }))
                    }
                }
            }
            ReqKind::Exact(name, version) => {
                let found = {
                    let view = self.client_view(name);
                    view.exact(name, version).map(|r| r.cloned())
                };
                match found {
                    Err(()) => Answer::Exact(Err(ClientError::PackageDoesNotExist {
                        name: PackageName::new(name.clone()).unwrap(),
                        has_auth_token: false,
                    })),
                    Ok(None) => Answer::Exact(Err(ClientError::PackageVersionDoesNotExist {
                        version: version.clone(),
                        name: PackageName::new(name.clone()).unwrap(),
                    })),
                    Ok(Some(rel)) => match self.transit(name, &rel.version) {
                        Ok(d) => Answer::Exact(Ok(d)),
                        Err(e) => Answer::Exact(Err(e)),
                    },
                }
            }
            ReqKind::Latest(name, req) => {
                let found = {
                    let view = self.client_view(name);
                    view.latest(name, req).map(|r| r.cloned())
                };
                match found {
                    Err(()) => Answer::Latest(Err(ClientError::PackageDoesNotExist {
                        name: PackageName::new(name.clone()).unwrap(),
                        has_auth_token: false,
                    })),
                    Ok(None) => Answer::Latest(Ok(None)),
                    Ok(Some(rel)) => match self.transit(name, &rel.version) {
                        Ok(d) => Answer::Latest(Ok(Some(d))),
                        Err(e) => Answer::Latest(Err(e)),
                    },
                }
            }
        };
        let desc = match &answer {
            Answer::Fetch(r) => format!("{:?}", r.as_ref().map_err(|e| e.to_string())),
            Answer::Exact(r) => format!(
                "{:?}",
                r.as_ref()
                    .map(|d| d.version.to_string())
                    .map_err(|e| e.to_string())
            ),
            Answer::Latest(r) => format!(
                "{:?}",
                r.as_ref()
                    .map(|d| d.as_ref().map(|d| d.version.to_string()))
                    .map_err(|e| e.to_string())
            ),
        };
        if !matches!(p.kind, ReqKind::Fetch(_)) {
            self.st.borrow_mut().complete_order.push(p.id);
        }
        let now = self.st.borrow().now;
        self.event(format!("fire r{} @{} -> {}", p.id, now, desc));
        let waker = {
            let mut slot = p.slot.borrow_mut();
            slot.answer = Some(answer);
            slot.waker.take()
        };
        if let Some(w) = waker {
            w.wake();
        }
    }

    /// What the client knows about `name` when a download is answered: its stored log (as of
    /// the last `fetch_packages` that included the name), or, if it has none, a log fetched on
    /// demand (`Client::package` in warg-client loads from storage first, then fetches).
    fn client_view(&self, name: &str) -> Registry {
        let mut st = self.st.borrow_mut();
        if !st.client_logs.contains_key(name) {
            if let Some(rels) = st.registry.packages.get(name).cloned() {
                st.client_logs.insert(name.to_string(), rels);
            }
        }
        let mut view = Registry::default();
        if let Some(rels) = st.client_logs.get(name) {
            view.packages.insert(name.to_string(), rels.clone());
        }
        view
    }

    /// The content transfer itself: where download faults land.
    fn transit(&self, name: &str, version: &Version) -> Result<PackageDownload, ClientError> {
        let (de, cl) = {
            let st = self.st.borrow();
            (st.plan.download_error, st.plan.content_lost)
        };
        if self.chance(de) {
            self.st
                .borrow_mut()
                .fired
                .push(("download_error".into(), format!("{name}@{version}")));
            return Err(ClientError::Other(
                "simulated: connection reset while downloading content".into(),
            ));
        }
        let path = if self.chance(cl) {
            let mut st = self.st.borrow_mut();
            st.fired
                .push(("content_lost".into(), format!("{name}@{version}")));
            st.lost_counter += 1;
            st.content_dir.join(format!("lost-{}", st.lost_counter))
        } else {
            content_path(&self.st.borrow().content_dir, name, version)
        };
        Ok(PackageDownload {
            version: version.clone(),
            path,
        })
    }
}

pub struct SimHandle(pub Rc<Sim>);

impl SimRegistry for SimHandle {
    fn fetch_packages(&self, names: Vec<PackageName>) -> BoxFut<Result<(), ClientError>> {
        let names: Vec<String> = names.iter().map(|n| n.to_string()).collect();
        let n = names.len() as u64;
        let slot = self.0.issue(ReqKind::Fetch(names), n);
        Box::pin(ReqFuture {
            slot,
            take: |a| match a {
                Answer::Fetch(r) => r,
                _ => unreachable!(),
            },
        })
    }
    fn download_exact(
        &self,
        name: PackageName,
        version: Version,
    ) -> BoxFut<Result<PackageDownload, ClientError>> {
        let size = self.0.draw(64);
        let slot = self.0.issue(ReqKind::Exact(name.to_string(), version), size);
        Box::pin(ReqFuture {
            slot,
            take: |a| match a {
                Answer::Exact(r) => r,
                _ => unreachable!(),
            },
        })
    }
    fn download(
        &self,
        name: PackageName,
        requirement: VersionReq,
    ) -> BoxFut<Result<Option<PackageDownload>, ClientError>> {
        let size = self.0.draw(64);
        let slot = self
            .0
            .issue(ReqKind::Latest(name.to_string(), requirement), size);
        Box::pin(ReqFuture {
            slot,
            take: |a| match a {
                Answer::Latest(r) => r,
                _ => unreachable!(),
            },
        })
    }
    fn spawn(&self, task: BoxFut<()>) {
        let id = {
            let mut st = self.0.st.borrow_mut();
            let id = st.tasks.len();
            st.tasks.push(Some(task));
            st.ready.push(id);
            id
        };
        self.0.event(format!("spawn t{id}"));
    }
}

#[derive(Debug)]
pub enum Stop {
    Done,
    Deadlock,
    StepBudget,
}

/// Drives `root` (task 0) and all spawned tasks to completion of the root.
fn drive<'a, T>(
    sim: &Rc<Sim>,
    mut root: Pin<Box<dyn Future<Output = T> + 'a>>,
    flavour: Flavour,
    eager_timers: u64,
    step_budget: u64,
) -> (Option<T>, Stop, u64) {
    let queue: Arc<Mutex<Vec<usize>>> = Arc::new(Mutex::new(Vec::new()));
    let waker_for = |id: usize| -> Waker {
        Waker::from(Arc::new(TaskWaker {
            id,
            queue: queue.clone(),
        }))
    };
    sim.st.borrow_mut().ready.push(0);
    let mut steps = 0u64;
    let mut steps_after_last_fault = 0u64;
    let mut faults_seen = 0usize;
    loop {
        // move wake-ups into the ready set (dedup, keep first-wake order)
        {
            let mut q = queue.lock().unwrap();
            let mut st = sim.st.borrow_mut();
            for id in q.drain(..) {
                let alive = id == 0 || st.tasks.get(id).map(|t| t.is_some()).unwrap_or(false);
                if alive && !st.ready.contains(&id) {
                    st.ready.push(id);
                }
            }
        }
        let nfaults = sim.st.borrow().fired.len();
        if nfaults != faults_seen {
            faults_seen = nfaults;
            steps_after_last_fault = 0;
        }
        steps += 1;
        steps_after_last_fault += 1;
        if steps_after_last_fault > step_budget {
            return (None, Stop::StepBudget, steps);
        }

        let (nready, ntimers) = {
            let st = sim.st.borrow();
            (st.ready.len(), st.timers.len())
        };

        // fault: the runtime drops a spawned task
        let abort = sim.st.borrow().plan.task_abort;
        if abort > 0 {
            let live: Vec<usize> = {
                let st = sim.st.borrow();
                (1..st.tasks.len()).filter(|i| st.tasks[*i].is_some()).collect()
            };
            if !live.is_empty() && sim.chance(abort) {
                let victim = live[sim.draw(live.len() as u64) as usize];
                let task = {
                    let mut st = sim.st.borrow_mut();
                    st.ready.retain(|t| *t != victim);
                    st.fired.push(("task_abort".into(), format!("t{victim}")));
                    st.tasks[victim].take()
                };
                sim.event(format!("abort t{victim}"));
                drop(task);
                continue;
            }
        }

        // fault: spurious wake-up (poll a task that nothing woke)
        let dup = sim.st.borrow().plan.dup_poll;
        let mut forced: Option<usize> = None;
        if dup > 0 && sim.chance(dup) {
            let live: Vec<usize> = {
                let st = sim.st.borrow();
                std::iter::once(0)
                    .chain((1..st.tasks.len()).filter(|i| st.tasks[*i].is_some()))
                    .filter(|i| !st.ready.contains(i))
                    .collect()
            };
            if !live.is_empty() {
                let t = live[sim.draw(live.len() as u64) as usize];
                sim.st
                    .borrow_mut()
                    .fired
                    .push(("dup_poll".into(), format!("t{t}")));
                forced = Some(t);
            }
        }

        let fire_timer = forced.is_none()
            && ntimers > 0
            && (nready == 0 || (eager_timers > 0 && sim.chance(eager_timers)));
        if fire_timer {
            // earliest timer; ties (same due time) broken by a draw
            let p = {
                let mut st = sim.st.borrow_mut();
                let (Reverse(t), _, _) = *st.timers.peek().unwrap();
                let mut same: Vec<(Reverse<u64>, Reverse<u64>, usize)> = Vec::new();
                while let Some(top) = st.timers.peek() {
                    if top.0 .0 == t {
                        same.push(st.timers.pop().unwrap());
                    } else {
                        break;
                    }
                }
                drop(st);
                let k = if same.len() > 1 {
                    sim.draw(same.len() as u64) as usize
                } else {
                    0
                };
                let mut st = sim.st.borrow_mut();
                let chosen = same.remove(k);
                for other in same {
                    st.timers.push(other);
                }
                if t > st.now {
                    st.now = t;
                }
                st.pending[chosen.2].take().unwrap()
            };
            sim.fire(p);
            continue;
        }

        let id = if let Some(t) = forced {
            t
        } else if nready > 0 {
            let k = match flavour {
                Flavour::Random => sim.draw(nready as u64) as usize,
                Flavour::Fifo => 0,
                Flavour::Lifo => nready - 1,
                Flavour::Starve(victim) => {
                    let st = sim.st.borrow();
                    let others: Vec<usize> = (0..nready)
                        .filter(|k| st.ready[*k] != victim)
                        .collect();
                    drop(st);
                    if others.is_empty() {
                        0
                    } else {
                        others[sim.draw(others.len() as u64) as usize]
                    }
                }
            };
            sim.st.borrow_mut().ready.remove(k)
        } else {
            return (None, Stop::Deadlock, steps);
        };

        sim.st.borrow_mut().current_task = id;
        let waker = waker_for(id);
        let mut cx = Context::from_waker(&waker);
        if id == 0 {
            sim.event("poll t0".to_string());
            if let Poll::Ready(v) = root.as_mut().poll(&mut cx) {
                sim.event("root done".to_string());
                return (Some(v), Stop::Done, steps);
            }
        } else {
            let task = sim.st.borrow_mut().tasks[id].take();
            if let Some(mut task) = task {
                sim.event(format!("poll t{id}"));
                match task.as_mut().poll(&mut cx) {
                    Poll::Ready(()) => {
                        sim.event(format!("done t{id}"));
                    }
                    Poll::Pending => {
                        sim.st.borrow_mut().tasks[id] = Some(task);
                    }
                }
            }
        }
    }
}

// ---------------------------------------------------------------------------
// Scenario + oracle
// ---------------------------------------------------------------------------

#[derive(Debug, Clone)]
pub struct Key {
    pub name: String,
    pub version: Option<Version>,
    pub span: SourceSpan,
}

impl Key {
    fn show(&self) -> String {
        match &self.version {
            Some(v) => format!("{}@{}", self.name, v),
            None => self.name.clone(),
        }
    }
}

#[derive(Debug, Clone, PartialEq)]
enum Expect {
    Content(Vec<u8>),
    InvalidName,
    NoPackage,
    NoVersion,
    NoReleases,
}

fn expect_for(reg: &Registry, k: &Key) -> Expect {
    match verdict(reg, &k.name, k.version.as_ref()) {
        Verdict::Version(v) => Expect::Content(content_for(&k.name, &v)),
        Verdict::InvalidName => Expect::InvalidName,
        Verdict::NoPackage => Expect::NoPackage,
        Verdict::NoVersion => Expect::NoVersion,
        Verdict::NoReleases => Expect::NoReleases,
    }
}

struct Bar(Rc<RefCell<Vec<String>>>);
impl ProgressBar for Bar {
    fn init(&self, count: usize) {
        self.0.borrow_mut().push(format!("init {count}"));
    }
    fn println(&self, status: &str, msg: &str) {
        self.0.borrow_mut().push(format!("{status} {msg}"));
    }
    fn inc(&self, delta: usize) {
        self.0.borrow_mut().push(format!("inc {delta}"));
    }
    fn finish(&self) {
        self.0.borrow_mut().push("finish".into());
    }
}

pub fn run(run: &mut Run) {
    let content_dir = run.scratch.join("c20-content");
    if let Err(e) = ensure_content_pool(&content_dir) {
        run.harness(format!("cannot write content pool: {e}"));
        return;
    }
    // every access to the tape in this function goes through one raw pointer (the simulated
    // transport draws from it too)
    let tape_ptr: *mut crate::tape::Tape = run.tape as *mut _;
    let t: &mut crate::tape::Tape = unsafe { &mut *tape_ptr };

    // ---- swarm: sizes, workload family, fault kinds, scheduler flavour, knobs ----
    let faulty = t.chance(1, 2);
    let mut plan = FaultPlan::default();
    if faulty {
        // each fault kind enabled independently; rates low enough that most runs progress
        if t.chance(1, 3) {
            plan.fetch_error = *t.pick(&[20, 100, 300]);
        }
        if t.chance(1, 3) {
            plan.download_error = *t.pick(&[30, 100, 300]);
        }
        if t.chance(1, 3) {
            plan.content_lost = *t.pick(&[30, 100, 300]);
        }
        if t.chance(1, 4) {
            plan.task_abort = *t.pick(&[5, 20, 60]);
        }
        if t.chance(1, 3) {
            plan.slow_node = *t.pick(&[50, 200]);
        }
        if t.chance(1, 3) {
            plan.dup_poll = *t.pick(&[20, 100, 300]);
        }
    }
    let flavour = match t.draw(5) {
        0 | 1 => Flavour::Random,
        2 => Flavour::Fifo,
        3 => Flavour::Lifo,
        _ => Flavour::Starve(t.draw(7) as usize),
    };
    let eager_timers = *t.pick(&[0, 0, 100, 500, 900]);
    let base_latency = *t.pick(&[1, 10, 1000]);
    let jitter = *t.pick(&[0, 0, 5, 1000, 100_000]);
    let per_byte = *t.pick(&[0, 1, 100]);
    let with_bar = t.chance(1, 3);
    // family: plain registry resolution, or the hand-over in `wac_cli::PackageResolver`
    // (file-system lookup first, registry for what the disk does not hold)
    let handover = t.chance(1, 4);

    // ---- registry ----
    let npk = t.range(1, 5) as usize;
    let mut names: Vec<&str> = NAME_POOL.to_vec();
    t.shuffle(&mut names);
    names.truncate(npk);
    let mut registry = Registry::default();
    for name in &names {
        let nrel = t.draw(5) as usize;
        let mut vs: Vec<&str> = VERSION_POOL.to_vec();
        t.shuffle(&mut vs);
        vs.truncate(nrel);
        let rels = vs
            .into_iter()
            .map(|v| Release {
                version: Version::parse(v).unwrap(),
                yanked: t.chance(1, 6),
            })
            .collect();
        registry.packages.insert(name.to_string(), rels);
    }
    // multi-step histories: the same resolver is used for several resolve calls while the
    // registry changes in between (new releases, yanks, new packages)
    let nsteps = *t.pick(&[1usize, 1, 1, 2, 3]);
    let error_bias = *t.pick(&[0u64, 0, 1, 3]); // how often to ask for something that does not exist
    t.event(format!(
        "scenario faulty={faulty} plan={plan:?} flavour={flavour:?} eager={eager_timers} lat={base_latency}+{per_byte}/B±{jitter} bar={with_bar} steps={nsteps} handover={handover}"
    ));

    let sim = Rc::new(Sim {
        st: RefCell::new(SimState {
            registry: registry.clone(),
            content_dir: content_dir.clone(),
            tasks: vec![None],
            ready: Vec::new(),
            timers: BinaryHeap::new(),
            pending: Vec::new(),
            now: 0,
            seq: 0,
            current_task: 0,
            plan: plan.clone(),
            base_latency,
            jitter,
            per_byte,
            issue_order: Vec::new(),
            complete_order: Vec::new(),
            fetched: Vec::new(),
            client_logs: BTreeMap::new(),
            fired: Vec::new(),
            events: Vec::new(),
            lost_counter: 0,
        }),
        tape: RefCell::new(tape_ptr),
    });
    let _guard = verif_seam::install(Rc::new(SimHandle(sim.clone())));

    let bar_log = Rc::new(RefCell::new(Vec::new()));
    let bar: Option<Box<dyn ProgressBar>> = if with_bar {
        Some(Box::new(Bar(bar_log.clone())))
    } else {
        None
    };


    // ---- the resolver lives across the steps ----
    let deps_dir = run.scratch.join(format!("c20-deps-{}", run.index));
    enum Resolvers {
        Plain(RegistryPackageResolver),
        Hand(wac_cli::PackageResolver),
    }
    let mut resolvers = {
        let deps_dir = deps_dir.clone();
        let root: Pin<Box<dyn Future<Output = Result<Resolvers, String>>>> = if handover {
            Box::pin(async move {
                wac_cli::PackageResolver::new(deps_dir, Default::default(), None)
                    .await
                    .map(Resolvers::Hand)
                    .map_err(|e| format!("resolver construction failed: {e}"))
            })
        } else {
            Box::pin(async move {
                RegistryPackageResolver::new(None, bar)
                    .await
                    .map(Resolvers::Plain)
                    .map_err(|e| format!("client construction failed: {e}"))
            })
        };
        match drive(&sim, root, Flavour::Fifo, 0, 64) {
            (Some(Ok(r)), _, _) => r,
            (Some(Err(e)), _, _) => {
                run.harness(e);
                return;
            }
            _ => {
                run.harness("resolver construction did not complete");
                return;
            }
        }
    };

    for step in 0..nsteps {
    let t: &mut crate::tape::Tape = unsafe { &mut *tape_ptr };
    if step > 0 {
        // ---- the registry changes between resolve calls ----
        let names_now: Vec<String> = registry.packages.keys().cloned().collect();
        let what = match t.draw(4) {
            0 if names_now.len() < NAME_POOL.len() => {
                let fresh: Vec<&str> = NAME_POOL.iter().copied().filter(|n| !registry.packages.contains_key(*n)).collect();
                let n = fresh[t.index(fresh.len())];
                let v = Version::parse(*t.pick(VERSION_POOL)).unwrap();
                registry.packages.insert(n.to_string(), vec![Release { version: v.clone(), yanked: false }]);
                format!("publish new package {n}@{v}")
            }
            1 => {
                let n = &names_now[t.index(names_now.len())];
                let rels = registry.packages.get_mut(n).unwrap();
                let live: Vec<usize> = (0..rels.len()).filter(|i| !rels[*i].yanked).collect();
                if live.is_empty() {
                    "no change".to_string()
                } else {
                    let i = live[t.index(live.len())];
                    rels[i].yanked = true;
                    format!("yank {n}@{}", rels[i].version)
                }
            }
            _ => {
                let n = &names_now[t.index(names_now.len())];
                let rels = registry.packages.get_mut(n).unwrap();
                let unused: Vec<&str> = VERSION_POOL
                    .iter()
                    .copied()
                    .filter(|v| !rels.iter().any(|r| r.version.to_string() == *v))
                    .collect();
                if unused.is_empty() {
                    "no change".to_string()
                } else {
                    let v = Version::parse(unused[t.index(unused.len())]).unwrap();
                    rels.push(Release { version: v.clone(), yanked: false });
                    format!("publish {n}@{v}")
                }
            }
        };
        t.event(format!("step {step}: registry change: {what}"));
        run.probe("multi_step_resolves");
        let mut st = sim.st.borrow_mut();
        st.registry = registry.clone();
        st.fired.clear();
        st.issue_order.clear();
        st.complete_order.clear();
        st.tasks = vec![None];
        st.ready.clear();
        // requests still in flight belong to detached tasks of the previous call
        st.timers.clear();
        for p in st.pending.iter_mut() {
            *p = None;
        }
    }
    let names: Vec<String> = registry.packages.keys().cloned().collect();
    // ---- requested keys ----
    let nkeys = t.range(1, 6) as usize;
    let mut keys: Vec<Key> = Vec::new();
    let mut attempts = 0;
    while keys.len() < nkeys && attempts < 40 {
        attempts += 1;
        let shape = t.draw(12);
        let (name, version): (String, Option<Version>) = if shape < 8 || error_bias == 0 {
            // existing package; bias towards names already requested (same-name shapes)
            let name = if !keys.is_empty() && t.chance(1, 2) {
                keys[t.index(keys.len())].name.clone()
            } else {
                names[t.index(names.len())].to_string()
            };
            let rels = registry.packages.get(&name).cloned().unwrap_or_default();
            let version = match t.draw(4) {
                0 => None,
                1 | 2 if !rels.is_empty() => Some(rels[t.index(rels.len())].version.clone()),
                _ if error_bias > 0 && t.chance(error_bias, 6) => {
                    Some(Version::parse(*t.pick(VERSION_POOL)).unwrap())
                }
                _ if !rels.is_empty() => Some(rels[t.index(rels.len())].version.clone()),
                _ => None,
            };
            (name, version)
        } else if shape < 10 {
            let name = t.pick(ABSENT_POOL).to_string();
            let version = if t.chance(1, 2) {
                Some(Version::parse(*t.pick(VERSION_POOL)).unwrap())
            } else {
                None
            };
            (name, version)
        } else if handover {
            continue;
        } else {
            let name = t.pick(INVALID_POOL).to_string();
            let version = if t.chance(1, 2) {
                Some(Version::parse(*t.pick(VERSION_POOL)).unwrap())
            } else {
                None
            };
            (name, version)
        };
        if keys.iter().any(|k| k.name == name && k.version == version) {
            continue;
        }
        let i = keys.len();
        keys.push(Key {
            name,
            version,
            span: SourceSpan::new((10 * i + 3).into(), i + 1),
        });
    }
    // request order
    t.shuffle(&mut keys);

    // ---- hand-over family: some keys are also on the (simulated) disk ----
    let mut disk: Vec<Option<Vec<u8>>> = vec![None; keys.len()];
    let mut document_text = String::new();
    if handover {
        let _ = std::fs::remove_dir_all(&deps_dir);
        document_text.push_str("package test:doc;\n");
        for (i, k) in keys.iter().enumerate() {
            if t.chance(1, 3) {
                let bytes = format!("\0disk-content-of {}\n", k.show()).into_bytes();
                let mut p = deps_dir.clone();
                for seg in k.name.split(':') {
                    p.push(seg);
                }
                if let Some(v) = &k.version {
                    p.push(v.to_string());
                }
                let mut os = p.into_os_string();
                os.push(".wasm");
                let p = PathBuf::from(os);
                if let Some(parent) = p.parent() {
                    let _ = std::fs::create_dir_all(parent);
                }
                if std::fs::write(&p, &bytes).is_ok() {
                    disk[i] = Some(bytes);
                }
            }
            document_text.push_str(&format!("let x{i} = new {} {{ ... }};\n", k.show()));
        }
    }
    // `<deps>/ns/name/<version>.wasm` makes `<deps>/ns/name` a directory, and a directory at
    // the base path is never a `.wasm` package: an unversioned key of the same name is then
    // not found on disk (documented layout, C18's subject) and goes to the registry.
    if handover {
        let shadowed: Vec<bool> = keys
            .iter()
            .map(|k| {
                k.version.is_none()
                    && keys
                        .iter()
                        .zip(disk.iter())
                        .any(|(q, d)| q.name == k.name && q.version.is_some() && d.is_some())
            })
            .collect();
        for (i, sh) in shadowed.iter().enumerate() {
            if *sh {
                disk[i] = None;
            }
        }
    }
    let document = if handover {
        match wac_parser::Document::parse(&document_text) {
            Ok(d) => Some(d),
            Err(e) => {
                run.harness(format!("generated hand-over document does not parse: {e}"));
                return;
            }
        }
    } else {
        None
    };
    if let Some(doc) = &document {
        // spans of the discovered keys are where the document mentions them
        match wac_resolver::packages(doc) {
            Ok(found) => {
                for k in keys.iter_mut() {
                    if let Some((_, span)) = found
                        .iter()
                        .find(|(fk, _)| fk.name == k.name && fk.version == k.version.as_ref())
                    {
                        k.span = *span;
                    }
                }
            }
            Err(e) => {
                run.harness(format!("package discovery failed on the generated document: {e}"));
                return;
            }
        }
    }

    // ---- describe the scenario in the trace ----
    for (n, rels) in &registry.packages {
        t.event(format!(
            "registry {n}: {}",
            rels.iter()
                .map(|r| format!("{}{}", r.version, if r.yanked { "(yanked)" } else { "" }))
                .collect::<Vec<_>>()
                .join(", ")
        ));
    }
    t.event(format!(
        "keys [{}]",
        keys.iter().map(|k| k.show()).collect::<Vec<_>>().join(", ")
    ));
    if handover {
        t.event(format!(
            "hand-over through wac_cli::PackageResolver; on disk: [{}]",
            keys.iter()
                .zip(disk.iter())
                .filter(|(_, d)| d.is_some())
                .map(|(k, _)| k.show())
                .collect::<Vec<_>>()
                .join(", ")
        ));
    }

    // ---- probes from the workload ----
    {
        let mut by_name: BTreeMap<&str, Vec<&Key>> = BTreeMap::new();
        for k in &keys {
            by_name.entry(&k.name).or_default().push(k);
        }
        if by_name.values().any(|v| v.len() >= 2) {
            run.probe("same_name_two_keys");
        }
        if by_name
            .values()
            .any(|v| v.iter().filter(|k| k.version.is_some()).count() >= 2)
        {
            run.probe("same_name_two_versions");
        }
        if by_name.values().any(|v| {
            v.iter().any(|k| k.version.is_some()) && v.iter().any(|k| k.version.is_none())
        }) {
            run.probe("versioned_plus_unversioned");
        }
    }
    if keys.len() >= 2 {
        run.nontrivial = true;
    }

    // ---- build the real inputs ----
    let key_map: IndexMap<BorrowedPackageKey<'_>, SourceSpan> = keys
        .iter()
        .map(|k| {
            (
                BorrowedPackageKey::from_name_and_version(&k.name, k.version.as_ref()),
                k.span,
            )
        })
        .collect();

    let step_budget = 64 + 32 * keys.len() as u64 + 200 * (plan.dup_poll.min(1));
    type Resolved<'k> = Result<IndexMap<BorrowedPackageKey<'k>, Vec<u8>>, Error>;
    let keys_ref = &keys;
    let root: Pin<Box<dyn Future<Output = Result<(Resolved<'_>, Vec<String>), String>> + '_>> = match (&mut resolvers, &document) {
        (Resolvers::Hand(resolver), Some(doc)) => Box::pin(async move {
            // re-key the result by the requested keys (the result borrows from the document)
            let mut extra = Vec::new();
            let r = resolver.resolve(doc).await.map(|m| {
                let mut out = IndexMap::new();
                for (k, bytes) in m {
                    match keys_ref
                        .iter()
                        .find(|q| q.name == k.name && q.version.as_ref() == k.version)
                    {
                        Some(q) => {
                            out.insert(
                                BorrowedPackageKey::from_name_and_version(&q.name, q.version.as_ref()),
                                bytes,
                            );
                        }
                        None => extra.push(k.to_string()),
                    }
                }
                out
            });
            Ok((r, extra))
        }),
        (Resolvers::Plain(resolver), _) => {
            let key_map = &key_map;
            Box::pin(async move { Ok((resolver.resolve(key_map).await, Vec::new())) })
        }
        _ => {
            run.harness("inconsistent resolver / document");
            return;
        }
    };

    crate::seams::clear_last_panic();
    let driven = std::panic::catch_unwind(std::panic::AssertUnwindSafe(|| {
        drive(&sim, root, flavour, eager_timers, step_budget)
    }));
    // After the root completes, remaining tasks are detached; drop them.
    let leftover = {
        let mut st = sim.st.borrow_mut();
        let n = st.tasks.iter().filter(|t| t.is_some()).count();
        let tasks: Vec<_> = st.tasks.drain(..).collect();
        drop(st);
        drop(tasks);
        n
    };

    // ---- collect what happened ----
    let (fired, issue_order, complete_order, now) = {
        let st = sim.st.borrow();
        (
            st.fired.clone(),
            st.issue_order.clone(),
            st.complete_order.clone(),
            st.now,
        )
    };
    for (kind, _) in &fired {
        run.fault(kind);
    }
    run.add("sim_time_us", now);
    let fired_kind = |k: &str| fired.iter().any(|(kind, _)| kind == k);
    if complete_order.len() >= 2 {
        let pos: Vec<usize> = complete_order
            .iter()
            .filter_map(|c| issue_order.iter().position(|i| i == c))
            .collect();
        if pos.len() == issue_order.len() {
            run.cover(
                &format!("completion_orders_n{}", pos.len()),
                pos.iter().map(|p| p.to_string()).collect::<Vec<_>>().join(""),
            );
            if pos.windows(2).all(|w| w[0] > w[1]) {
                run.probe("completion_order_reversed");
            }
        }
        if pos.first().copied() == Some(issue_order.len() - 1) {
            run.probe("first_completed_is_last_requested");
        }
    }

    let (result, stop, steps) = match driven {
        Ok(x) => x,
        Err(_) => {
            let site = crate::seams::last_panic()
                .map(|p| format!("{} ({})", p.location, p.message))
                .unwrap_or_else(|| "unknown".into());
            let class = crate::seams::last_panic()
                .map(|p| p.class())
                .unwrap_or_else(|| "panic@unknown".into());
            run.violate(
                class,
                format!("resolve panicked at {site}; keys [{}]", show_keys(&keys)),
            );
            return;
        }
    };
    run.add("executor_steps", steps);
    unsafe { &mut *tape_ptr }.event(format!("stop {stop:?} leftover_tasks={leftover}"));

    if handover {
        run.probe("handover_runs");
        if disk.iter().any(|d| d.is_some()) && disk.iter().any(|d| d.is_none()) {
            run.probe("handover_disk_and_registry_mixed");
        }
    }
    let result = match (result, stop) {
        (Some(Ok((r, extra))), _) => {
            if let Some(x) = extra.first() {
                run.violate(
                    "extra-key",
                    format!("the result holds `{x}`, which was not requested; keys [{}]", show_keys(&keys)),
                );
                return;
            }
            r
        }
        (Some(Err(e)), _) => {
            run.harness(e);
            return;
        }
        (None, Stop::Deadlock) => {
            run.violate(
                "deadlock",
                format!(
                    "executor quiescent (no ready task, no pending request) with resolve still pending; keys [{}]",
                    show_keys(&keys)
                ),
            );
            return;
        }
        (None, _) => {
            run.violate(
                "liveness",
                format!(
                    "resolve did not complete within {step_budget} executor steps after the last fault; keys [{}]",
                    show_keys(&keys)
                ),
            );
            return;
        }
    };

    // ---- oracle ----
    let expects: Vec<Expect> = keys
        .iter()
        .zip(disk.iter())
        .map(|(k, d)| match d {
            // a package found on disk is never asked of the registry
            Some(bytes) => Expect::Content(bytes.clone()),
            None => expect_for(&registry, k),
        })
        .collect();
    let first_invalid = expects.iter().position(|e| *e == Expect::InvalidName);
    let any_missing_pkg = expects.iter().any(|e| *e == Expect::NoPackage);
    let bad: Vec<usize> = (0..keys.len())
        .filter(|i| matches!(expects[*i], Expect::NoVersion | Expect::NoReleases))
        .collect();
    if let Some(errk) = result.as_ref().err() {
        if bad.len() >= 1 && !issue_order.is_empty() && complete_order.len() < issue_order.len() {
            if matches!(
                errk,
                Error::PackageVersionDoesNotExist { .. } | Error::PackageNoReleases { .. }
            ) {
                run.probe("error_with_inflight_downloads");
            }
        }
    }

    let outcome_label;
    match &result {
        Ok(map) => {
            outcome_label = "ok".to_string();
            if first_invalid.is_some() || any_missing_pkg || !bad.is_empty() {
                let which = (0..keys.len())
                    .find(|i| !matches!(expects[*i], Expect::Content(_)))
                    .unwrap();
                run.violate(
                    "unexpected-ok",
                    format!(
                        "resolve returned Ok although key `{}` cannot be satisfied ({:?}); keys [{}]; returned keys [{}]",
                        keys[which].show(),
                        short(&expects[which]),
                        show_keys(&keys),
                        map.keys().map(|k| k.to_string()).collect::<Vec<_>>().join(", ")
                    ),
                );
            } else {
                // exactly the requested keys, each with its own content
                for (i, k) in keys.iter().enumerate() {
                    let bk = BorrowedPackageKey::from_name_and_version(&k.name, k.version.as_ref());
                    match map.get(&bk) {
                        None => {
                            run.violate(
                                "dropped-key",
                                format!(
                                    "key `{}` is missing from the result; keys [{}]; returned keys [{}]",
                                    k.show(),
                                    show_keys(&keys),
                                    map.keys().map(|k| k.to_string()).collect::<Vec<_>>().join(", ")
                                ),
                            );
                            break;
                        }
                        Some(bytes) => {
                            if let Expect::Content(want) = &expects[i] {
                                if bytes != want {
                                    let got = String::from_utf8_lossy(bytes);
                                    let got = got.lines().next().unwrap_or("").trim_start_matches('\0').to_string();
                                    run.violate(
                                        "wrong-content",
                                        format!(
                                            "key `{}` was given `{}`; keys [{}]",
                                            k.show(),
                                            got,
                                            show_keys(&keys)
                                        ),
                                    );
                                    break;
                                }
                            }
                        }
                    }
                }
                if map.len() != keys.len() && run.violation.is_none() {
                    run.violate(
                        "extra-key",
                        format!(
                            "result has {} entries for {} requested keys; keys [{}]",
                            map.len(),
                            keys.len(),
                            show_keys(&keys)
                        ),
                    );
                }
            }
        }
        Err(e) => {
            outcome_label = format!("err:{}", variant(e));
            let keys_s = show_keys(&keys);
            match e {
                Error::InvalidPackageName { name, span } => match first_invalid {
                    Some(i) if keys[i].name == *name && keys[i].span == *span => {}
                    Some(i) => run.violate(
                        "misattributed-error",
                        format!(
                            "InvalidPackageName names `{name}`@{span:?} but the first invalid key is `{}`@{:?}; keys [{keys_s}]",
                            keys[i].show(), keys[i].span
                        ),
                    ),
                    None => run.violate(
                        "unexpected-error",
                        format!("InvalidPackageName `{name}` although every name is valid; keys [{keys_s}]"),
                    ),
                },
                _ if first_invalid.is_some() => run.violate(
                    "misattributed-error",
                    format!(
                        "expected InvalidPackageName for `{}`, got {}; keys [{keys_s}]",
                        keys[first_invalid.unwrap()].show(),
                        variant(e)
                    ),
                ),
                Error::PackageDoesNotExist { name, span } => {
                    let ok = keys.iter().enumerate().any(|(i, k)| {
                        k.name == *name && k.span == *span && expects[i] == Expect::NoPackage
                    });
                    if !ok {
                        let class = if keys.iter().enumerate().any(|(i, k)| k.name == *name && expects[i] == Expect::NoPackage) {
                            "misattributed-error"
                        } else {
                            "unexpected-error"
                        };
                        run.violate(
                            class,
                            format!("PackageDoesNotExist `{name}`@{span:?} does not match a requested key of a missing package; keys [{keys_s}]"),
                        );
                    }
                }
                Error::RegistryUpdateFailure { .. } => {
                    if !fired_kind("fetch_error") {
                        run.violate(
                            "unexpected-error",
                            format!("RegistryUpdateFailure without a transport fault: {e:?}; keys [{keys_s}]"),
                        );
                    }
                }
                _ if any_missing_pkg && !fired_kind("fetch_error") => run.violate(
                    "misattributed-error",
                    format!("a requested package does not exist, but the error is {}; keys [{keys_s}]", variant(e)),
                ),
                Error::PackageVersionDoesNotExist { name, version, span } => {
                    let ok = keys.iter().enumerate().any(|(i, k)| {
                        k.name == *name
                            && k.version.as_ref() == Some(version)
                            && k.span == *span
                            && expects[i] == Expect::NoVersion
                    });
                    if !ok {
                        let class = if bad.iter().any(|i| expects[*i] == Expect::NoVersion) {
                            "misattributed-error"
                        } else {
                            "unexpected-error"
                        };
                        run.violate(
                            class,
                            format!("PackageVersionDoesNotExist `{name}@{version}`@{span:?} does not match a requested key whose version is missing; keys [{keys_s}]"),
                        );
                    }
                }
                Error::PackageNoReleases { name, span } => {
                    let ok = keys.iter().enumerate().any(|(i, k)| {
                        k.name == *name
                            && k.version.is_none()
                            && k.span == *span
                            && expects[i] == Expect::NoReleases
                    });
                    if !ok {
                        let class = if bad.iter().any(|i| expects[*i] == Expect::NoReleases) {
                            "misattributed-error"
                        } else {
                            "unexpected-error"
                        };
                        run.violate(
                            class,
                            format!("PackageNoReleases `{name}`@{span:?} does not match an unversioned requested key without eligible release; keys [{keys_s}]"),
                        );
                    }
                }
                Error::RegistryDownloadFailure { .. } => {
                    if !(fired_kind("download_error") || fired_kind("task_abort")) {
                        run.violate(
                            "unexpected-error",
                            format!("RegistryDownloadFailure without a transport or runtime fault: {e:?}; keys [{keys_s}]"),
                        );
                    }
                }
                Error::RegistryContentFailure { .. } => {
                    if !fired_kind("content_lost") {
                        run.violate(
                            "unexpected-error",
                            format!("RegistryContentFailure without a lost-content fault: {e:?}; keys [{keys_s}]"),
                        );
                    }
                }
                other => run.violate(
                    "unexpected-error",
                    format!("unexpected error variant {}: {other:?}; keys [{keys_s}]", variant(other)),
                ),
            }
        }
    }
    unsafe { &mut *tape_ptr }.event(format!("outcome {outcome_label}"));
    run.cover("outcomes", outcome_label);
    if with_bar && result.is_ok() {
        let log = bar_log.borrow();
        let incs = log.iter().filter(|l| l.starts_with("inc")).count();
        run.add("bar_incs", incs as u64);
    }
    } // steps
    let _ = std::fs::remove_dir_all(&deps_dir);
    drop(_guard);
}

fn show_keys(keys: &[Key]) -> String {
    keys.iter().map(|k| k.show()).collect::<Vec<_>>().join(", ")
}

fn short(e: &Expect) -> String {
    match e {
        Expect::Content(_) => "content".into(),
        other => format!("{other:?}"),
    }
}

fn variant(e: &Error) -> &'static str {
    match e {
        Error::RegistryClientFailed(_) => "RegistryClientFailed",
        Error::UnknownPackage { .. } => "UnknownPackage",
        Error::InvalidPackageName { .. } => "InvalidPackageName",
        Error::UnknownPackageVersion { .. } => "UnknownPackageVersion",
        Error::CannotInstantiateSelf { .. } => "CannotInstantiateSelf",
        Error::PackageDoesNotExist { .. } => "PackageDoesNotExist",
        Error::PackageVersionDoesNotExist { .. } => "PackageVersionDoesNotExist",
        Error::PackageNoReleases { .. } => "PackageNoReleases",
        Error::RegistryUpdateFailure { .. } => "RegistryUpdateFailure",
        Error::RegistryDownloadFailure { .. } => "RegistryDownloadFailure",
        Error::RegistryContentFailure { .. } => "RegistryContentFailure",
        Error::PackageResolutionFailure { .. } => "PackageResolutionFailure",
    }
}
