//! Run / result types shared by all properties, and the per-run driver used by workers.

use crate::tape::{mix, Tape};
use serde::{Deserialize, Serialize};
use std::collections::BTreeMap;
use std::path::PathBuf;

pub const DEFAULT_SEED: u64 = 20260922;

#[derive(Debug, Clone, Copy, PartialEq, Eq, Serialize, Deserialize)]
#[serde(rename_all = "lowercase")]
pub enum Tier {
    Quick,
    Thorough,
}

impl Tier {
    pub fn parse(s: &str) -> Option<Tier> {
        match s {
            "quick" => Some(Tier::Quick),
            "thorough" => Some(Tier::Thorough),
            _ => None,
        }
    }
    pub fn as_str(&self) -> &'static str {
        match self {
            Tier::Quick => "quick",
            Tier::Thorough => "thorough",
        }
    }
}

#[derive(Debug, Clone, Serialize, Deserialize)]
pub struct Violation {
    /// Violation class: part of the replay file name and of known-finding signatures.
    pub class: String,
    pub detail: String,
}

#[derive(Debug, Clone, Default, Serialize, Deserialize)]
pub struct RunResult {
    pub index: u64,
    pub seed: u64,
    /// Digest of the run's event log.
    pub digest: String,
    /// At least one fault fired or at least two schedulable/orderable items existed.
    pub nontrivial: bool,
    /// How often each fault kind actually fired.
    #[serde(default, skip_serializing_if = "BTreeMap::is_empty")]
    pub faults: BTreeMap<String, u64>,
    /// "This rare condition was hit" probes and other counters (summed over the batch).
    #[serde(default, skip_serializing_if = "BTreeMap::is_empty")]
    pub probes: BTreeMap<String, u64>,
    /// Set-valued coverage: key → distinct labels seen (unioned over the batch).
    #[serde(default, skip_serializing_if = "BTreeMap::is_empty")]
    pub cover: BTreeMap<String, Vec<String>>,
    #[serde(default, skip_serializing_if = "Option::is_none")]
    pub violation: Option<Violation>,
    /// The recorded tape (only kept for violations and samples).
    #[serde(default, skip_serializing_if = "Vec::is_empty")]
    pub tape: Vec<u64>,
    #[serde(default, skip_serializing_if = "Vec::is_empty")]
    pub trace: Vec<String>,
    /// Harness-level problem (never a violation): exit 2.
    #[serde(default, skip_serializing_if = "Option::is_none")]
    pub harness_error: Option<String>,
}

/// Per-run collector handed to the property code.
pub struct Run<'a> {
    pub index: u64,
    pub tier: Tier,
    pub tape: &'a mut Tape,
    pub scratch: &'a PathBuf,
    pub faults: BTreeMap<String, u64>,
    pub probes: BTreeMap<String, u64>,
    pub cover: BTreeMap<String, std::collections::BTreeSet<String>>,
    pub nontrivial: bool,
    pub violation: Option<Violation>,
    pub harness_error: Option<String>,
}

impl<'a> Run<'a> {
    pub fn fault(&mut self, kind: &str) {
        *self.faults.entry(kind.to_string()).or_default() += 1;
        self.nontrivial = true;
    }
    pub fn probe(&mut self, name: &str) {
        *self.probes.entry(name.to_string()).or_default() += 1;
    }
    pub fn add(&mut self, name: &str, n: u64) {
        *self.probes.entry(name.to_string()).or_default() += n;
    }
    pub fn cover(&mut self, key: &str, label: impl Into<String>) {
        self.cover
            .entry(key.to_string())
            .or_default()
            .insert(label.into());
    }
    /// Records the first violation of the run.
    pub fn violate(&mut self, class: impl Into<String>, detail: impl Into<String>) {
        if self.violation.is_none() {
            self.violation = Some(Violation {
                class: class.into(),
                detail: detail.into(),
            });
        }
    }
    pub fn harness(&mut self, msg: impl Into<String>) {
        if self.harness_error.is_none() {
            self.harness_error = Some(msg.into());
        }
    }
}

pub type PropFn = fn(&mut Run);

pub struct PropDef {
    pub id: &'static str,
    pub run: PropFn,
    /// Whether runs depend on arena ids (seam A): chunks are then aligned to RUN_WINDOW
    /// and each chunk gets its own worker process.
    pub arena_sensitive: bool,
}

static TAPE_SINK: std::sync::Mutex<Option<PathBuf>> = std::sync::Mutex::new(None);

/// Makes the next executed run append every draw to `path` as it happens.
pub fn set_tape_sink(path: PathBuf) {
    *TAPE_SINK.lock().unwrap() = Some(path);
}

pub enum TapeSource {
    Seed(u64),
    Replay(Vec<u64>),
}

/// Executes one run and packages the result. `keep` = keep tape and trace even without violation.
pub fn execute(
    prop: &PropDef,
    index: u64,
    batch_seed: u64,
    tier: Tier,
    source: TapeSource,
    scratch: &PathBuf,
    keep: bool,
) -> RunResult {
    let seed = mix(batch_seed, index);
    let mut tape = match source {
        TapeSource::Seed(s) => Tape::explore(s),
        TapeSource::Replay(d) => Tape::replay(d),
    };
    if let Some(p) = TAPE_SINK.lock().unwrap().take() {
        if let Ok(f) = std::fs::File::create(&p) {
            tape.set_sink(f);
        }
    }
    let mut run = Run {
        index,
        tier,
        tape: &mut tape,
        scratch,
        faults: BTreeMap::new(),
        probes: BTreeMap::new(),
        cover: BTreeMap::new(),
        nontrivial: false,
        violation: None,
        harness_error: None,
    };
    let caught = std::panic::catch_unwind(std::panic::AssertUnwindSafe(|| (prop.run)(&mut run)));
    if caught.is_err() {
        run.harness("the harness itself panicked (see stderr)");
    }
    let Run {
        faults,
        probes,
        cover,
        nontrivial,
        violation,
        harness_error,
        ..
    } = run;
    let keep = keep || violation.is_some() || harness_error.is_some();
    RunResult {
        index,
        seed,
        digest: tape.digest(),
        nontrivial,
        faults,
        probes,
        cover: cover
            .into_iter()
            .map(|(k, v)| (k, v.into_iter().collect()))
            .collect(),
        violation,
        tape: if keep { tape.recorded() } else { Vec::new() },
        trace: if keep { tape.trace.clone() } else { Vec::new() },
        harness_error,
    }
}
