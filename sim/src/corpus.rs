//! The package library the workloads are built over: small components derived from
//! WIT worlds (records / variants / lists / options / results / resources /
//! cross-interface `use`, versioned interface names, overlapping imports) and
//! hand-shaped WAT components. Built once per process, in a fixed order.

use std::sync::OnceLock;

#[derive(Debug, Clone)]
pub struct Pkg {
    pub name: &'static str,
    pub version: Option<&'static str>,
    pub bytes: Vec<u8>,
    /// Names of the component's imports / exports (for workload generation).
    pub imports: Vec<String>,
    pub exports: Vec<String>,
    /// false for encoded WIT packages (interfaces / worlds as types)
    pub is_component: bool,
}

/// Indices (into `library()`) of the entries that are components, in library order.
pub fn component_indices() -> &'static Vec<usize> {
    static IDX: OnceLock<Vec<usize>> = OnceLock::new();
    IDX.get_or_init(|| {
        library()
            .iter()
            .enumerate()
            .filter(|(_, p)| p.is_component)
            .map(|(i, _)| i)
            .collect()
    })
}

const SHARED_1_0: &str = r#"
package foo:shared@1.0.0 {
  interface types {
    record point { x: s32, y: s32 }
    variant shape { circle(u32), rect(point), none }
    type id = u64;
    enum color { red, green, blue }
    flags perms { r, w, x }
    resource handle {
      constructor(n: u32);
      get: func() -> u32;
      merge: static func(a: borrow<handle>, b: borrow<handle>) -> handle;
    }
  }
  interface log {
    use types.{id, color};
    log: func(who: id, msg: string);
    level: func() -> color;
  }
  interface kv {
    use types.{point, handle, shape};
    get: func(k: string) -> option<point>;
    put: func(k: string, v: point) -> result<_, string>;
    open: func() -> handle;
    shapes: func() -> list<shape>;
  }
}
"#;

const SHARED_1_1: &str = r#"
package foo:shared@1.1.0 {
  interface types {
    record point { x: s32, y: s32 }
    variant shape { circle(u32), rect(point), none }
    type id = u64;
    enum color { red, green, blue }
    flags perms { r, w, x }
    resource handle {
      constructor(n: u32);
      get: func() -> u32;
      merge: static func(a: borrow<handle>, b: borrow<handle>) -> handle;
    }
  }
  interface log {
    use types.{id, color};
    log: func(who: id, msg: string);
    level: func() -> color;
    flush: func();
  }
  interface kv {
    use types.{point, handle, shape};
    get: func(k: string) -> option<point>;
    put: func(k: string, v: point) -> result<_, string>;
    open: func() -> handle;
    shapes: func() -> list<shape>;
    len: func() -> u32;
  }
}
"#;

const OTHER_2_0: &str = r#"
package foo:shared@2.0.0 {
  interface log {
    log: func(msg: string) -> bool;
  }
}
"#;

const UTIL: &str = r#"
package bar:util {
  interface clock { now: func() -> u64; }
  interface rand { next: func() -> u32; seed: func(s: u64); }
  interface fmt {
    record opts { width: u8, pad: char }
    fmt: func(v: s64, o: opts) -> string;
  }
}
"#;

/// (package name, version, world text, dependency package texts)
const WIT_COMPONENTS: &[(&str, Option<&str>, &str, &[&str])] = &[
    (
        "test:logger",
        None,
        "package test:logger;\nworld w { export foo:shared/log@1.0.0; }",
        &[SHARED_1_0],
    ),
    (
        "test:logger11",
        None,
        "package test:logger11;\nworld w { import bar:util/clock; export foo:shared/log@1.1.0; }",
        &[SHARED_1_1, UTIL],
    ),
    (
        "test:store",
        Some("0.1.0"),
        "package test:store;\nworld w { import foo:shared/log@1.0.0; export foo:shared/kv@1.0.0; }",
        &[SHARED_1_0],
    ),
    (
        "test:store",
        Some("0.2.0"),
        "package test:store;\nworld w { import foo:shared/log@1.1.0; import bar:util/rand; export foo:shared/kv@1.1.0; }",
        &[SHARED_1_1, UTIL],
    ),
    (
        "test:app",
        None,
        "package test:app;\nworld w { import foo:shared/kv@1.0.0; import foo:shared/log@1.0.0; import bar:util/clock; export run: func() -> u32; }",
        &[SHARED_1_0, UTIL],
    ),
    (
        "test:app11",
        None,
        "package test:app11;\nworld w { import foo:shared/kv@1.1.0; import foo:shared/log@1.1.0; import bar:util/fmt; export run: func() -> u32; export bar:util/clock; }",
        &[SHARED_1_1, UTIL],
    ),
    (
        "test:legacy",
        None,
        "package test:legacy;\nworld w { import foo:shared/log@2.0.0; import bar:util/rand; export run2: func(); }",
        &[OTHER_2_0, UTIL],
    ),
    (
        "test:util",
        Some("1.0.0"),
        "package test:util;\nworld w { export bar:util/clock; export bar:util/rand; export bar:util/fmt; }",
        &[UTIL],
    ),
    (
        "test:mixer",
        None,
        "package test:mixer;\nworld w { import foo:shared/types@1.0.0; import bar:util/fmt; import f: func(a: u32) -> u32; import g: func(); export h: func(a: list<u8>) -> string; export foo:shared/log@1.0.0; }",
        &[SHARED_1_0, UTIL],
    ),
    (
        "test:leaf-a",
        None,
        "package test:leaf-a;\nworld w { import a: func(); import b: func(); import c: func(); import d: func(); export ea: func(); }",
        &[],
    ),
    (
        "test:leaf-b",
        None,
        "package test:leaf-b;\nworld w { import b: func(); import c: func(); import e: func(); import z: func(); export eb: func(); }",
        &[],
    ),
    (
        "test:leaf-c",
        None,
        "package test:leaf-c;\nworld w { import d: func(); import a: func(); import y: func(); export ec: func(); export b: func(); export c: func(); }",
        &[],
    ),
];

const WAT_COMPONENTS: &[(&str, Option<&str>, &str)] = &[
    (
        "wat:simple",
        None,
        r#"(component
  (import "f" (func))
  (export "g" (func 0))
)"#,
    ),
    (
        "wat:inst",
        None,
        r#"(component
  (import "test:wit/foo" (instance (export "bar" (func))))
  (export "test:wit/foo" (instance 0))
)"#,
    ),
    (
        "wat:types",
        Some("3.0.0"),
        r#"(component
  (type $r (record (field "a" u8) (field "b" string)))
  (import "r" (type $r2 (eq $r)))
  (import "mk" (func (result $r2)))
  (import "use" (func (param "v" $r2)))
  (export "mk2" (func 0))
)"#,
    ),
    (
        "wat:two",
        None,
        r#"(component
  (import "a" (func))
  (import "z" (func))
  (import "m" (func (param "x" u32) (result u32)))
  (export "a2" (func 0))
  (export "z2" (func 1))
  (export "m" (func 2))
)"#,
    ),
    (
        "wat:empty",
        None,
        r#"(component)"#,
    ),
];

/// log@1.2.0 is on the semver track of 1.0.0 / 1.1.0 but defines `level` differently
/// (a merge conflict), and `geo` gives interfaces a second interface to `use` from.
const SHARED_1_2: &str = r#"
package foo:shared@1.2.0 {
  interface types {
    record point { x: s32, y: s32 }
    type id = u64;
    enum color { red, green, blue }
  }
  interface geo {
    record pt3 { x: f32, y: f32, z: f32 }
    type dist = f64;
    enum axis { x, y, z }
  }
  interface log {
    use types.{id};
    log: func(who: id, msg: string);
    level: func() -> u32;
  }
  interface nav {
    use types.{point, id};
    use geo.{pt3, dist, axis};
    lift: func(p: point) -> pt3;
    measure: func(a: pt3, b: pt3, along: axis) -> dist;
    owner: func() -> id;
  }
}
"#;

const WIT_COMPONENTS_2: &[(&str, Option<&str>, &str, &[&str])] = &[
    (
        "test:conflict",
        None,
        "package test:conflict;\nworld w { import foo:shared/log@1.2.0; export run3: func(); }",
        &[SHARED_1_2],
    ),
    (
        "test:nav",
        None,
        "package test:nav;\nworld w { import foo:shared/nav@1.2.0; export foo:shared/geo@1.2.0; export go: func(); }",
        &[SHARED_1_2],
    ),
    (
        "test:navimpl",
        Some("2.0.0"),
        "package test:navimpl;\nworld w { export foo:shared/nav@1.2.0; }",
        &[SHARED_1_2],
    ),
    (
        "test:plain",
        None,
        "package test:plain;\nworld w { import a: func(); export c: func(); export d: func(); }",
        &[],
    ),
];

/// Unusual but valid hand-shaped components.
const WAT_COMPONENTS_2: &[(&str, Option<&str>, &str)] = &[
    (
        "odd:empty-component-type",
        None,
        r#"(component (type (component)) (export "empty" (type 0)))"#,
    ),
    (
        "odd:imports-only-type",
        None,
        r#"(component (type (component (import "a" (func)))) (export "imports-only" (type 0)))"#,
    ),
    (
        "odd:empty-instance-type",
        None,
        r#"(component (type (instance)) (export "empty-inst" (type 0)) (import "i" (instance (type 0))) (export "j" (instance 0)))"#,
    ),
    (
        "odd:nested",
        Some("0.0.1"),
        r#"(component
  (component $inner (import "f" (func)) (export "g" (func 0)))
  (import "f" (func $f))
  (instance $i (instantiate $inner (with "f" (func $f))))
  (export "inner" (component $inner))
  (export "g" (func $i "g"))
)"#,
    ),
    (
        "odd:resource",
        None,
        r#"(component
  (import "res" (type $r (sub resource)))
  (import "mk" (func (result (own $r))))
  (import "peek" (func (param "r" (borrow $r)) (result u32)))
  (export "res2" (type $r))
  (export "mk2" (func 0))
)"#,
    ),
    (
        "odd:core-module",
        None,
        r#"(component
  (core module $m (func (export "f")))
  (import "n" (core module (export "f" (func))))
  (export "m" (core module $m))
)"#,
    ),
];

/// Third generation (appended last): components whose extern names are not plain
/// `ns:pkg/iface@version` paths.
const WAT_COMPONENTS_3: &[(&str, Option<&str>, &str)] = &[
    (
        "odd:urls",
        None,
        r#"(component
  (import "url=<https://user@example.com/dep>" (func))
  (import "locked-dep=<foo:dep@1.0.0>,integrity=<sha256-ab/dep>" (func))
  (import "unlocked-dep=<foo:other@{>=1.0.0}>" (func))
  (import "integrity=<sha256-abc>" (func))
  (import "plain" (func))
  (export "out" (func 4))
)"#,
    ),
    (
        "odd:versions",
        Some("1.0.0-rc.1+build.5"),
        r#"(component
  (import "a:b/c@0.0.1" (instance (export "f" (func))))
  (import "a:b/c@0.1.0-alpha" (instance (export "g" (func))))
  (import "a:b/d@1.0.0+meta" (instance (export "h" (func))))
  (export "a:b/c@0.0.1" (instance 0))
)"#,
    ),
];

pub const WIT_PACKAGES_2: &[(&str, Option<&str>, &str)] = &[
    (
        "solo:one",
        None,
        "package solo:one;\nworld only { import a: func(); export c: func(); export d: func(); }\n",
    ),
    (
        "solo:none",
        None,
        "package solo:none;\ninterface i { f: func(); }\n",
    ),
    (
        "foo:shared",
        Some("1.2.0"),
        r#"package foo:shared@1.2.0;
interface types {
  record point { x: s32, y: s32 }
  type id = u64;
  enum color { red, green, blue }
}
interface geo {
  record pt3 { x: f32, y: f32, z: f32 }
  type dist = f64;
  enum axis { x, y, z }
}
interface log {
  use types.{id};
  log: func(who: id, msg: string);
  level: func() -> u32;
}
interface nav {
  use types.{point, id};
  use geo.{pt3, dist, axis};
  lift: func(p: point) -> pt3;
  measure: func(a: pt3, b: pt3, along: axis) -> dist;
  owner: func() -> id;
}
world nav-world {
  import nav;
  export geo;
}
"#,
    ),
];

fn build_wit(world_text: &str, deps: &[&str]) -> anyhow::Result<Vec<u8>> {
    use wit_component::{ComponentEncoder, StringEncoding};
    let mut text = String::from(world_text);
    for d in deps {
        text.push('\n');
        text.push_str(d);
    }
    let mut resolve = wit_parser::Resolve::default();
    let id = resolve.push_str("corpus.wit", &text)?;
    let world = resolve.select_world(&[id], None)?;
    let mut module = wit_component::dummy_module(
        &resolve,
        world,
        wit_parser::ManglingAndAbi::Legacy(wit_parser::LiftLowerAbi::Sync),
    );
    wit_component::embed_component_metadata(&mut module, &resolve, world, StringEncoding::default())?;
    let mut encoder = ComponentEncoder::default().validate(true).module(&module)?;
    encoder.encode()
}

/// Encodes a WIT package (not a component) the way the fs resolver does for directories.
pub fn encode_wit_package(text: &str) -> anyhow::Result<Vec<u8>> {
    let mut resolve = wit_parser::Resolve::default();
    let id = resolve.push_str("pkg.wit", text)?;
    wit_component::encode(&resolve, id)
}

pub const WIT_PACKAGES: &[(&str, Option<&str>, &str)] = &[
    (
        "foo:shared",
        Some("1.0.0"),
        r#"package foo:shared@1.0.0;
interface types {
  record point { x: s32, y: s32 }
  variant shape { circle(u32), rect(point), none }
  type id = u64;
  enum color { red, green, blue }
  flags perms { r, w, x }
  resource handle {
    constructor(n: u32);
    get: func() -> u32;
    merge: static func(a: borrow<handle>, b: borrow<handle>) -> handle;
  }
}
interface log {
  use types.{id, color};
  log: func(who: id, msg: string);
  level: func() -> color;
}
interface kv {
  use types.{point, handle, shape};
  get: func(k: string) -> option<point>;
  put: func(k: string, v: point) -> result<_, string>;
  open: func() -> handle;
  shapes: func() -> list<shape>;
}
world app-world {
  import log;
  import kv;
  export run: func() -> u32;
}
world logger-world {
  export log;
}
"#,
    ),
    (
        "bar:util",
        None,
        r#"package bar:util;
interface clock { now: func() -> u64; }
interface rand { next: func() -> u32; seed: func(s: u64); }
interface fmt {
  record opts { width: u8, pad: char }
  fmt: func(v: s64, o: opts) -> string;
}
world util-world {
  export clock;
  export rand;
  export fmt;
}
world plain-world {
  import a: func();
  import b: func();
  export c: func();
  export d: func();
}
"#,
    ),
    (
        "foo:shared",
        Some("1.1.0"),
        r#"package foo:shared@1.1.0;
interface types {
  record point { x: s32, y: s32 }
  variant shape { circle(u32), rect(point), none }
  type id = u64;
  enum color { red, green, blue }
  flags perms { r, w, x }
  resource handle {
    constructor(n: u32);
    get: func() -> u32;
    merge: static func(a: borrow<handle>, b: borrow<handle>) -> handle;
  }
}
interface log {
  use types.{id, color};
  log: func(who: id, msg: string);
  level: func() -> color;
  flush: func();
}
world logger-world {
  export log;
}
"#,
    ),
];

fn names_of(bytes: &[u8]) -> (Vec<String>, Vec<String>) {
    // The code under test must not be able to take the harness down while the corpus is
    // built: a panic here only costs the name lists (the checks will find the panic).
    let bytes = bytes.to_vec();
    std::panic::catch_unwind(move || {
        let mut types = wac_types::Types::default();
        match wac_types::Package::from_bytes("probe:p", None, bytes, &mut types) {
            Ok(p) => {
                let w = &types[p.ty()];
                (
                    w.imports.keys().cloned().collect(),
                    w.exports.keys().cloned().collect(),
                )
            }
            Err(_) => (Vec::new(), Vec::new()),
        }
    })
    .unwrap_or_default()
}

static LIB: OnceLock<Vec<Pkg>> = OnceLock::new();

/// The component library, in a fixed order.
pub fn library() -> &'static Vec<Pkg> {
    LIB.get_or_init(|| {
        let mut v = Vec::new();
        for (name, version, world, deps) in WIT_COMPONENTS {
            let bytes = build_wit(world, deps)
                .unwrap_or_else(|e| panic!("corpus component {name} does not build: {e:?}"));
            let (imports, exports) = names_of(&bytes);
            v.push(Pkg {
                name,
                version: *version,
                bytes,
                imports,
                exports,
                is_component: true,
            });
        }
        for (name, version, text) in WAT_COMPONENTS {
            let bytes = wat::parse_str(text)
                .unwrap_or_else(|e| panic!("corpus component {name} does not assemble: {e:?}"));
            let (imports, exports) = names_of(&bytes);
            v.push(Pkg {
                name,
                version: *version,
                bytes,
                imports,
                exports,
                is_component: true,
            });
        }
        for (name, version, text) in WIT_PACKAGES {
            let bytes = encode_wit_package(text)
                .unwrap_or_else(|e| panic!("corpus WIT package {name} does not encode: {e:?}"));
            let (imports, exports) = names_of(&bytes);
            v.push(Pkg {
                name,
                version: *version,
                bytes,
                imports,
                exports,
                is_component: false,
            });
        }
        // ---- second generation (appended so that earlier indices stay stable) ----
        for (name, version, world, deps) in WIT_COMPONENTS_2 {
            let bytes = build_wit(world, deps)
                .unwrap_or_else(|e| panic!("corpus component {name} does not build: {e:?}"));
            let (imports, exports) = names_of(&bytes);
            v.push(Pkg {
                name,
                version: *version,
                bytes,
                imports,
                exports,
                is_component: true,
            });
        }
        for (name, version, text) in WAT_COMPONENTS_2 {
            let bytes = wat::parse_str(text)
                .unwrap_or_else(|e| panic!("corpus component {name} does not assemble: {e:?}"));
            let (imports, exports) = names_of(&bytes);
            v.push(Pkg {
                name,
                version: *version,
                bytes,
                imports,
                exports,
                is_component: true,
            });
        }
        for (name, version, text) in WIT_PACKAGES_2 {
            let bytes = encode_wit_package(text)
                .unwrap_or_else(|e| panic!("corpus WIT package {name} does not encode: {e:?}"));
            let (imports, exports) = names_of(&bytes);
            v.push(Pkg {
                name,
                version: *version,
                bytes,
                imports,
                exports,
                is_component: false,
            });
        }
        for (name, version, text) in WAT_COMPONENTS_3 {
            let bytes = wat::parse_str(text)
                .unwrap_or_else(|e| panic!("corpus component {name} does not assemble: {e:?}"));
            let (imports, exports) = names_of(&bytes);
            v.push(Pkg {
                name,
                version: *version,
                bytes,
                imports,
                exports,
                is_component: true,
            });
        }
        for (name, version, world, deps) in WIT_COMPONENTS_4 {
            let bytes = build_wit(world, deps)
                .unwrap_or_else(|e| panic!("corpus component {name} does not build: {e:?}"));
            let (imports, exports) = names_of(&bytes);
            v.push(Pkg {
                name,
                version: *version,
                bytes,
                imports,
                exports,
                is_component: true,
            });
        }
        // derived: a library component with one stored bit flipped that stays valid but becomes
        // unusual (found by the single-fault enumeration); kept only if it still validates
        for (name, base, offset, bit) in DERIVED {
            if let Some(b) = v.iter().find(|p: &&Pkg| p.name == *base).map(|p| p.bytes.clone()) {
                let mut bytes = b;
                if *offset < bytes.len() {
                    bytes[*offset] ^= 1 << bit;
                    let valid = wasmparser::Validator::new_with_features(wasmparser::WasmFeatures::all())
                        .validate_all(&bytes)
                        .is_ok();
                    if valid {
                        let (imports, exports) = names_of(&bytes);
                        v.push(Pkg {
                            name,
                            version: None,
                            bytes,
                            imports,
                            exports,
                            is_component: true,
                        });
                    }
                }
            }
        }
        for (name, version, text) in WAT_COMPONENTS_5 {
            let bytes = wat::parse_str(text)
                .unwrap_or_else(|e| panic!("corpus component {name} does not assemble: {e:?}"));
            let (imports, exports) = names_of(&bytes);
            v.push(Pkg {
                name,
                version: *version,
                bytes,
                imports,
                exports,
                is_component: true,
            });
        }
        for (name, version, world, deps) in WIT_COMPONENTS_6 {
            let bytes = build_wit(world, deps)
                .unwrap_or_else(|e| panic!("corpus component {name} does not build: {e:?}"));
            let (imports, exports) = names_of(&bytes);
            v.push(Pkg {
                name,
                version: *version,
                bytes,
                imports,
                exports,
                is_component: true,
            });
        }
        for (name, version, text) in WAT_COMPONENTS_7 {
            let bytes = wat::parse_str(text)
                .unwrap_or_else(|e| panic!("corpus component {name} does not assemble: {e:?}"));
            let (imports, exports) = names_of(&bytes);
            v.push(Pkg {
                name,
                version: *version,
                bytes,
                imports,
                exports,
                is_component: true,
            });
        }
        v
    })
}

/// Fourth generation: a component for a world whose WIT lives in a directory with `deps/`.
pub const DEMO_TYPES_WIT: &str = "package demo:types;\ninterface api { f: func(); record r { a: u8 } g: func(x: r); }\n";
pub const DEMO_MAIN_WIT: &str = "package demo:main;\nworld w { import demo:types/api; export run: func(); }\nworld other { export run: func(); }\n";
const WIT_COMPONENTS_4: &[(&str, Option<&str>, &str, &[&str])] = &[(
    "test:deps-user",
    None,
    "package demo:main;\nworld w { import demo:types/api; export run: func(); }",
    &["package demo:types {\n interface api { f: func(); record r { a: u8 } g: func(x: r); }\n}"],
)];

/// (new name, base component, byte offset, bit)
const DERIVED: &[(&str, &str, usize, u8)] = &[
    // the core module type's func export becomes an exact func entity
    ("odd:exact-func", "odd:core-module", 64, 5),
];

/// Fifth generation (appended after everything else): components that are valid under the
/// features `Package::from_bytes` validates with but use corners no toolchain-made component
/// of the library has — core module types with every extern kind, concrete reference types,
/// value imports / exports, values inside instance and component types, resources defined
/// by the component itself, a function import over an aliased list type.
const WAT_COMPONENTS_5: &[(&str, Option<&str>, &str)] = &[
    (
        "odd:core-externs",
        None,
        r#"(component
  (core type $mt (module
    (type $t (func (param i32 i64 f32 f64 v128) (result i32 i32)))
    (import "a" "f" (func (type $t)))
    (import "a" "t" (table 1 10 funcref))
    (import "a" "t64" (table i64 1 externref))
    (import "a" "m" (memory 1 2))
    (import "a" "m64" (memory i64 1))
    (import "a" "ms" (memory 1 2 shared))
    (import "a" "g" (global (mut i64)))
    (import "a" "gv" (global v128))
    (import "a" "gr" (global (ref null func)))
    (import "a" "tag" (tag (param i32)))
    (export "e" (func (type $t)))
    (export "x" (table 0 externref))
    (export "mem" (memory 1))
    (export "glob" (global f32))
  ))
  (import "mod" (core module $m (type $mt)))
  (export "mod-out" (core module $m))
)"#,
    ),
    (
        "odd:core-refs",
        None,
        r#"(component
  (core type (module
    (type $t (func))
    (import "a" "b" (func (param (ref null $t))))
  ))
  (import "m" (core module (type 0)))
)"#,
    ),
    (
        "odd:value",
        None,
        r#"(component (import "v" (value $v string)) (import "f" (func)) (export "g" (func 0)) (export "w" (value $v)))"#,
    ),
    (
        "odd:valtype",
        None,
        r#"(component
  (type $c (component (import "v" (value u32)) (export "o" (value (list u8)))))
  (export "c" (type $c))
  (type $i (instance (export "w" (value string))))
  (import "i" (instance (type $i)))
)"#,
    ),
    (
        "odd:res",
        None,
        r#"(component
  (type $r (resource (rep i32)))
  (export $r2 "r" (type $r))
  (core module $m (func (export "f") (result i32) i32.const 1))
  (core instance $i (instantiate $m))
  (type $ft (func (result (own $r2))))
  (func $mk (type $ft) (canon lift (core func $i "f")))
  (export "mk" (func $mk))
  (import "iface" (instance $imp (export "q" (type (sub resource))) (export "g" (func))))
  (export "iface-out" (instance $imp))
)"#,
    ),
    (
        "test:consumer",
        None,
        r#"(component
  (type $bytes (list u8))
  (import "process" (func (param "data" $bytes) (result $bytes)))
  (type $it (instance
    (type $rec (record (field "a" u32) (field "b" (list u8))))
    (export "rec" (type $rec2 (eq $rec)))
    (type $al (list u8))
    (export "buf" (type $al2 (eq $al)))
    (export "take" (func (param "r" $rec2) (param "b" $al2) (result $al2)))
  ))
  (import "test:consumer/sink" (instance (type $it)))
  (export "process-out" (func 0))
)"#,
    ),
    (
        "test:two-shape",
        None,
        r#"(component
  (type $ct (component
    (import "alpha" (func))
    (import "beta" (func))
    (export "gamma" (func))
    (export "delta" (func))
    (export "epsilon" (func))
  ))
  (import "c" (component (type $ct)))
  (import "x" (func))
  (import "y" (func))
  (import "z" (func))
  (export "x-out" (func 0))
)"#,
    ),
];

/// Sixth generation: toolchain-made components whose world `use`s a resource of an imported
/// interface and has world-level functions over it.
const WIT_COMPONENTS_6: &[(&str, Option<&str>, &str, &[&str])] = &[
    (
        "test:res-user",
        None,
        "package t:w;\ninterface i { resource r { constructor(a: u32); get: func() -> u32; } mk: func() -> r; }\nworld w { use i.{r}; import use-r: func(x: borrow<r>); import take-r: func(x: r) -> r; export run: func(); }",
        &[],
    ),
    (
        "test:res-exporter",
        None,
        "package t:x;\ninterface i { resource r { constructor(a: u32); get: func() -> u32; } mk: func() -> r; }\nworld w { export i; import log: func(m: string); }",
        &[],
    ),
];

/// Seventh generation: instances nested in instances on one semver track (each nested
/// instance gets its own interface id in the aggregator, so a third name on the track has two
/// candidates to merge into).
const WAT_COMPONENTS_7: &[(&str, Option<&str>, &str)] = &[
    (
        "odd:track-nest-a",
        None,
        r#"(component
  (import "x:y/a@0.2.0" (instance
     (export "x:y/a@0.2.1" (instance (export "f" (func))))
  ))
)"#,
    ),
    (
        "odd:track-nest-b",
        None,
        r#"(component
  (import "x:y/b" (instance
     (export "x:y/a@0.2.2" (instance (export "f" (func))))
  ))
)"#,
    ),
    (
        "odd:res-share",
        None,
        r#"(component
  (import "x:y/b@1.0.0" (instance $i0 (export "r2" (type (sub resource)))))
  (alias export $i0 "r2" (type $r0))
  (import "f" (instance $i1 (alias outer 1 $r0 (type $o1)) (export "u2" (type $u1 (eq $o1)))))
  (export "q:r/a@0.2.1" (instance 0))
)"#,
    ),
    (
        "odd:track-nest-c",
        None,
        r#"(component
  (import "x:y/b" (instance
     (export "x:y/a@0.2.2" (instance
        (export "f" (func))
        (export "x:y/a@0.2.1" (func))
     ))
  ))
)"#,
    ),
];

pub fn describe() -> String {
    let mut s = String::new();
    for p in library() {
        s.push_str(&format!(
            "{}{} {} bytes imports={:?} exports={:?}\n",
            p.name,
            p.version.map(|v| format!("@{v}")).unwrap_or_default(),
            p.bytes.len(),
            p.imports,
            p.exports
        ));
    }
    s
}
