//! Seams H (hash seed) and A (arena-id counter), and the simulated "process".
//!
//! H: std obtains its per-thread `RandomState` keys through a *weak* `getrandom`
//! symbol so that it can be interposed. We define the symbol: the bytes are a
//! pure function of the hash seed the simulator set for the calling thread.
//! A simulated process is a fresh OS thread (fresh thread = fresh keys), so
//! every `HashMap`/`HashSet` iteration order in wac and in its dependencies is
//! decided by the tape.
//!
//! A: `id-arena` numbers arenas from a process-global counter and `Id: Hash`
//! hashes that number, so `HashMap<Type, _>` orders also depend on how many
//! arenas were created before. Every simulated process therefore starts at an
//! arena counter that is a function of (run index, process index) only.

use crate::tape::splitmix64;
use std::cell::Cell;
use std::collections::HashMap;
use std::panic::{catch_unwind, AssertUnwindSafe};
use std::sync::Mutex;

thread_local! {
    static HASH_SEED: Cell<u64> = const { Cell::new(0x5EED_0000_0000_0001) };
    static HASH_CTR: Cell<u64> = const { Cell::new(0) };
}

/// Interposes libc's `getrandom` for this binary (std's `RandomState`, and anything else).
///
/// # Safety
/// Called by std / libc users with a valid buffer.
#[no_mangle]
pub unsafe extern "C" fn getrandom(buf: *mut u8, len: usize, _flags: u32) -> isize {
    let seed = HASH_SEED.with(|s| s.get());
    let ctr = HASH_CTR.with(|c| {
        let v = c.get();
        c.set(v + 1);
        v
    });
    let mut state = seed ^ ctr.wrapping_mul(0xD6E8_FEB8_6659_FD93);
    let mut i = 0;
    while i < len {
        let v = splitmix64(&mut state).to_le_bytes();
        let mut j = 0;
        while j < 8 && i < len {
            *buf.add(i) = v[j];
            i += 1;
            j += 1;
        }
    }
    len as isize
}

/// Reads the next arena id without side effects other than consuming it.
fn next_arena_id() -> u32 {
    use id_arena::{Arena, ArenaBehavior, DefaultArenaBehavior};
    let mut a: Arena<u8> = Arena::new();
    let id = a.alloc(0);
    DefaultArenaBehavior::<u8>::arena_id(id)
}

/// Burns arenas until the next arena created will get id `target`.
/// Returns false (harness error) if the counter is already past the target.
pub fn align_arena_counter(target: u32) -> bool {
    let mut cur = next_arena_id();
    // `cur` was consumed; the next arena gets cur+1.
    loop {
        let next = cur.wrapping_add(1);
        if next == target {
            return true;
        }
        // distance going forward
        let dist = target.wrapping_sub(next);
        if dist > (1 << 30) {
            return false;
        }
        if dist > 64 {
            // bulk burn
            for _ in 0..dist - 1 {
                let _ = id_arena::Arena::<u8>::new();
            }
            cur = next_arena_id();
        } else {
            cur = next_arena_id();
        }
    }
}

pub const ARENAS_PER_PROCESS: u32 = 1024;
pub const PROCESSES_PER_RUN: u32 = 64;
pub const RUN_WINDOW: u64 = 256;
pub const ARENA_OFFSET: u32 = 1 << 20;

/// The arena id the first arena of process `proc` of run `index` gets.
pub fn arena_base(index: u64, proc_index: u32) -> u32 {
    let slot = (index % RUN_WINDOW) as u32;
    // the offset leaves room for whatever the worker's main thread created while
    // building the corpora (wit-parser uses id-arena too)
    ARENA_OFFSET + (slot * PROCESSES_PER_RUN + (proc_index % PROCESSES_PER_RUN) + 1) * ARENAS_PER_PROCESS
}

#[derive(Debug, Clone)]
pub struct PanicInfo {
    pub message: String,
    pub location: String,
}

impl PanicInfo {
    /// Violation class of a panic: the source file plus a slug of the message (not the line
    /// number, which moves with every unrelated edit above it).
    pub fn class(&self) -> String {
        let file = self.location.rsplit_once(':').map(|(f, _)| f).unwrap_or(&self.location);
        let mut slug = String::new();
        let mut last_dash = false;
        for c in self.message.chars().take(70) {
            if c.is_ascii_alphanumeric() {
                slug.push(c.to_ascii_lowercase());
                last_dash = false;
            } else if !last_dash {
                slug.push('-');
                last_dash = true;
            }
        }
        format!("panic@{file}:{}", slug.trim_matches('-'))
    }
}

static LAST_PANIC: Mutex<Option<PanicInfo>> = Mutex::new(None);

pub fn install_panic_hook() {
    std::panic::set_hook(Box::new(|info| {
        let location = info
            .location()
            .map(|l| {
                let f = l.file();
                // make the site stable across checkouts: strip up to the crate dir
                let f = f
                    .rsplit_once("/repo/")
                    .map(|(_, r)| r)
                    .or_else(|| f.rsplit_once("/registry/src/").map(|(_, r)| {
                        r.split_once('/').map(|(_, r)| r).unwrap_or(r)
                    }))
                    .unwrap_or(f);
                format!("{}:{}", f, l.line())
            })
            .unwrap_or_else(|| "unknown".to_string());
        let message = if let Some(s) = info.payload().downcast_ref::<&str>() {
            s.to_string()
        } else if let Some(s) = info.payload().downcast_ref::<String>() {
            s.clone()
        } else {
            "non-string panic payload".to_string()
        };
        if std::env::var_os("WACSIM_BT").is_some() {
            eprintln!("panic at {location}: {message}\n{}", std::backtrace::Backtrace::force_capture());
        }
        *LAST_PANIC.lock().unwrap() = Some(PanicInfo { message, location });
    }));
}

pub fn clear_last_panic() {
    *LAST_PANIC.lock().unwrap() = None;
}

pub fn last_panic() -> Option<PanicInfo> {
    LAST_PANIC.lock().unwrap().clone()
}

pub enum ProcExit<T> {
    Ok(T),
    Panic(PanicInfo),
}

pub struct ProcSpec {
    pub hash_seed: u64,
    /// Align the arena counter to this id before running (seam A); None = leave.
    pub arena_base: Option<u32>,
    pub stack_bytes: usize,
}

impl ProcSpec {
    pub fn new(hash_seed: u64) -> Self {
        ProcSpec {
            hash_seed,
            arena_base: None,
            stack_bytes: 8 << 20,
        }
    }
}

/// Runs `f` as a simulated process: a fresh thread with its own hash seed,
/// joined before this returns (one simulated process at a time).
pub fn run_process<T: Send + 'static>(
    spec: ProcSpec,
    f: impl FnOnce() -> T + Send + 'static,
) -> Result<ProcExit<T>, String> {
    let handle = std::thread::Builder::new()
        .stack_size(spec.stack_bytes)
        .spawn(move || {
            HASH_SEED.with(|s| s.set(spec.hash_seed));
            HASH_CTR.with(|c| c.set(0));
            if let Some(base) = spec.arena_base {
                if !align_arena_counter(base) {
                    return Err("arena counter is past the requested base".to_string());
                }
            }
            *LAST_PANIC.lock().unwrap() = None;
            match catch_unwind(AssertUnwindSafe(f)) {
                Ok(v) => Ok(ProcExit::Ok(v)),
                Err(_) => {
                    let info = LAST_PANIC.lock().unwrap().take().unwrap_or(PanicInfo {
                        message: "panic".into(),
                        location: "unknown".into(),
                    });
                    Ok(ProcExit::Panic(info))
                }
            }
        })
        .map_err(|e| format!("failed to spawn simulated process: {e}"))?;
    handle
        .join()
        .map_err(|_| "simulated process thread died".to_string())?
}

/// Canary: the iteration order of a std HashMap under hash seed `h`.
pub fn canary_order(h: u64) -> String {
    match run_process(ProcSpec::new(h), || {
        let mut m = HashMap::new();
        for i in 0..12u32 {
            m.insert(i, ());
        }
        m.keys().map(|k| format!("{k:x}")).collect::<String>()
    }) {
        Ok(ProcExit::Ok(s)) => s,
        _ => "error".into(),
    }
}

/// Verifies that seam H is live: same seed ⇒ same order, different seeds ⇒ several orders.
pub fn seam_h_selfcheck() -> Result<usize, String> {
    let mut orders = std::collections::BTreeSet::new();
    for h in 1..=16u64 {
        let a = canary_order(h);
        let b = canary_order(h);
        if a != b {
            return Err(format!(
                "seam H is not in control: hash seed {h} gave orders {a} and {b}"
            ));
        }
        orders.insert(a);
    }
    if orders.len() < 8 {
        return Err(format!(
            "seam H is not live: 16 hash seeds gave only {} orders",
            orders.len()
        ));
    }
    Ok(orders.len())
}
