(component
  (import "a:b/c" (instance $c
    (export "a:b/c" (instance (export "f" (func))))
  ))
)
