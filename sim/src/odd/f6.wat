(component
  (type $i (component
   (import "foo" (instance $foo (export "t" (type (sub resource)))))
   (alias export $foo "t" (type $t))
   (export "a:b/i" (instance (alias outer 1 $t (type $t2)) (export "t" (type (eq $t2)))))
  ))
  (export "i" (type $i))
)
