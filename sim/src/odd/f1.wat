(component
  (import "foo" (instance $foo (export "t" (type (sub resource)))))
  (alias export $foo "t" (type $t))
  (import "t2" (type (eq $t)))
)
