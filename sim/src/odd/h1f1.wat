(component
  (type $it (instance
    (export "f" (func))
  ))
  (export "it" (type $it))
)
