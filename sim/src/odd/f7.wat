(component
  (import "r" (type $r (sub resource)))
  (import "i" (instance (alias outer 1 $r (type $r2)) (export "r2" (type (eq $r2)))))
)
