(component
  (import "a:b/c" (instance $c
    (export "r" (type $r (sub resource)))
    (export "j" (instance (alias outer 1 $r (type $r2)) (export "r2" (type (eq $r2)))))
  ))
)
