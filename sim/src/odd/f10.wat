(component
  (type $c (component
    (type $it (instance (type $e (enum "a")) (export "t" (type (eq $e))) (export "f" (func))))
    (import "plain" (instance (type $it)))
    (export "x:y/z" (instance (type $it)))
  ))
  (export "i" (type $c))
)
