(component
  (import "a:b/c" (instance $c (export "t" (type (sub resource)))))
  (alias export $c "t" (type $t))
  (import "x" (instance
     (export "inner" (instance
        (alias outer 2 $t (type $t2))
        (export "t" (type (eq $t2)))
        (export "f" (func (param "x" (own 1))))
     ))
  ))
)
