(component
  (import "a:b/c@1.0.0" (instance $c1 (export "r" (type (sub resource))) ))
  (alias export $c1 "r" (type $r))
  (import "a:b/c@1.1.0" (instance (alias outer 1 $r (type $r2)) (export "r" (type (eq $r2))) (export "f" (func (param "x" (own 1))))))
)
