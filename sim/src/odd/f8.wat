(component
  (import "r" (type $r (sub resource)))
  (import "c" (component (alias outer 1 $r (type $r2)) (import "r2" (type (eq $r2)))))
)
