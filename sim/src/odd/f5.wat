(component
  (type $w (component
     (export "a:b/w" (component
        (import "foo" (instance $foo (export "t" (type (sub resource)))))
        (alias export $foo "t" (type $t))
        (import "bar" (instance (alias outer 1 $t (type $t2)) (export "t" (type (eq $t2)))))
     ))
  ))
  (export "w" (type $w))
)
