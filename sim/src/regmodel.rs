//! The reference registry: the stub behind seam R and the model of C20's oracle.
//! Shared (by `#[path]`) with `/verif/fidelity`, which compares it with the real Warg
//! client + server over loopback.

use semver::{Version, VersionReq};
use std::collections::BTreeMap;
use warg_protocol::registry::PackageName;

/// Semantics transcribed from warg-client 0.9.0 (`Client::{fetch_packages,download,download_exact}`,
/// lib.rs:654-782,1228) and warg-protocol 0.9.0 (`package/state.rs` `release`, `find_latest_release`,
/// `Release::content`): a missing log is `PackageDoesNotExist`; an exact version that is not a
/// release or is yanked is `PackageVersionDoesNotExist`; "latest" is the highest non-yanked
/// release that `VersionReq` matches (pre-releases do not match `*`).
#[derive(Debug, Clone)]
pub struct Release {
    pub version: Version,
    pub yanked: bool,
}

#[derive(Debug, Clone, Default)]
pub struct Registry {
    pub packages: BTreeMap<String, Vec<Release>>,
}

impl Registry {
    pub fn exact(&self, name: &str, v: &Version) -> Result<Option<&Release>, ()> {
        let rels = self.packages.get(name).ok_or(())?;
        Ok(rels.iter().find(|r| &r.version == v && !r.yanked))
    }
    pub fn latest(&self, name: &str, req: &VersionReq) -> Result<Option<&Release>, ()> {
        let rels = self.packages.get(name).ok_or(())?;
        Ok(rels
            .iter()
            .filter(|r| !r.yanked && req.matches(&r.version))
            .max_by(|a, b| a.version.cmp(&b.version)))
    }
}


/// What resolving one key must yield.
#[derive(Debug, Clone, PartialEq)]
pub enum Verdict {
    /// The content published under this version.
    Version(Version),
    InvalidName,
    NoPackage,
    NoVersion,
    NoReleases,
}

pub fn verdict(reg: &Registry, name: &str, version: Option<&Version>) -> Verdict {
    if PackageName::new(name.to_string()).is_err() {
        return Verdict::InvalidName;
    }
    match version {
        Some(v) => match reg.exact(name, v) {
            Err(()) => Verdict::NoPackage,
            Ok(None) => Verdict::NoVersion,
            Ok(Some(r)) => Verdict::Version(r.version.clone()),
        },
        None => match reg.latest(name, &VersionReq::STAR) {
            Err(()) => Verdict::NoPackage,
            Ok(None) => Verdict::NoReleases,
            Ok(Some(r)) => Verdict::Version(r.version.clone()),
        },
    }
}
