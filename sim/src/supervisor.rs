//! Batch supervision: single-threaded worker processes, crash attribution,
//! determinism self-check, tape minimisation, replay files, known findings, evidence.

use crate::engine::{RunResult, Tier, Violation};
use serde::{Deserialize, Serialize};
use serde_json::{json, Value};
use std::collections::{BTreeMap, BTreeSet, HashMap};
use std::io::{BufRead, BufReader, Write};
use std::path::{Path, PathBuf};
use std::process::{Child, Command, Stdio};
use std::sync::mpsc;
use std::sync::{Arc, Mutex};
use std::time::{Duration, Instant};

/// Root of the verification tree (evidence, replays, known findings, target/bin).
pub fn verif_root() -> PathBuf {
    std::env::var_os("WACSIM_ROOT")
        .map(PathBuf::from)
        .unwrap_or_else(|| PathBuf::from("/verif"))
}

/// Path this binary was started from (not /proc/self/exe, which goes stale when the
/// file is replaced by a rebuild while a batch is running).
pub fn self_exe() -> PathBuf {
    let a0 = std::env::args().next().unwrap_or_default();
    let p = PathBuf::from(&a0);
    if p.is_absolute() && p.exists() {
        return p;
    }
    if let Ok(c) = std::env::current_dir() {
        let q = c.join(&p);
        if q.exists() {
            return q;
        }
    }
    std::env::current_exe().unwrap_or(p)
}

#[derive(Clone)]
pub struct BatchCfg {
    pub prop: String,
    pub tier: Tier,
    pub seed: u64,
    pub runs: u64,
    pub chunk: u64,
    pub workers: usize,
    pub arena_sensitive: bool,
    /// Seconds of silence after which a worker is considered hung.
    pub watchdog_s: u64,
    /// How many runs are re-executed for the determinism self-check.
    pub recheck: u64,
    /// Wall-clock cap for the main batch (seconds); remaining runs are skipped and reported.
    pub batch_wall_s: u64,
    /// Keep trace+tape of every `sample_every`-th run as evidence samples.
    pub sample_every: u64,
    /// Level category + rule text for the evidence file.
    pub level: String,
    pub rule: String,
    pub assumptions: Vec<String>,
    pub components: Value,
    /// Extra args passed to the worker (variant tags etc.)
    pub extra_env: Vec<(String, String)>,
    /// Probes / fault kinds this property expects to hit; those still at zero are reported.
    pub expected_probes: Vec<String>,
    /// Harness build variants the runs are spread over (run i uses variants[i % len]);
    /// empty = this binary for every run.
    pub variants: Vec<String>,
    /// Whether a run whose process dies (abort, stack overflow, timeout) violates the property.
    /// (Not for C16: a crash that does not depend on the hash seed is C14's subject.)
    pub crashes_are_violations: bool,
}

#[derive(Debug, Clone, Serialize, Deserialize)]
pub struct ReplayFile {
    pub property: String,
    pub class: String,
    pub detail: String,
    pub seed: u64,
    pub index: u64,
    pub tier: Tier,
    pub tape: Vec<u64>,
    #[serde(default)]
    pub trace: Vec<String>,
    #[serde(default)]
    pub minimised: bool,
    #[serde(default)]
    pub original_tape_len: usize,
    #[serde(default)]
    pub reproduced: bool,
    #[serde(default)]
    pub env: BTreeMap<String, String>,
}

#[derive(Debug, Clone, Serialize, Deserialize)]
pub struct KnownFinding {
    pub property: String,
    /// "open" or "fixed"
    pub status: String,
    /// Violation class (signature) this entry covers.
    pub signature: String,
    pub what: String,
    #[serde(default)]
    pub replay: Option<String>,
    #[serde(default)]
    pub commit: Option<String>,
}

pub fn load_known_findings() -> Vec<KnownFinding> {
    let p = verif_root().join("known_findings.json");
    match std::fs::read_to_string(&p) {
        Ok(s) => serde_json::from_str::<Vec<KnownFinding>>(&s).unwrap_or_else(|e| {
            eprintln!("harness: cannot parse {}: {e}", p.display());
            std::process::exit(2);
        }),
        Err(_) => Vec::new(),
    }
}

enum Line {
    Start(u64),
    Note(String),
    Result(Box<RunResult>),
    Eof,
}

struct WorkerOutcome {
    results: Vec<RunResult>,
    /// Set when the worker died / hung while executing this run.
    died_at: Option<(u64, String, String)>, // (index, how, last note)
}

/// The binary that executes run `index` (per-variant builds live next to this one).
fn exe_for(cfg: &BatchCfg, index: u64) -> PathBuf {
    if cfg.variants.is_empty() {
        return self_exe();
    }
    let v = &cfg.variants[(index % cfg.variants.len() as u64) as usize];
    let me = self_exe();
    me.parent()
        .map(|d| d.join(format!("wacsim-{v}")))
        .unwrap_or(me)
}

fn spawn_worker(cfg: &BatchCfg, first: u64, count: u64, tape_out: Option<&Path>, keep_all: bool) -> std::io::Result<Child> {
    let stride = cfg.variants.len().max(1) as u64;
    let mut cmd = Command::new(exe_for(cfg, first));
    cmd.arg("worker")
        .arg(&cfg.prop)
        .arg(cfg.tier.as_str())
        .arg(cfg.seed.to_string())
        .arg(first.to_string())
        .arg(count.to_string())
        .arg(cfg.sample_every.to_string())
        .arg("--stride")
        .arg(stride.to_string());
    if let Some(p) = tape_out {
        cmd.arg("--tape-out").arg(p);
    }
    if keep_all {
        cmd.arg("--keep");
    }
    for (k, v) in &cfg.extra_env {
        cmd.env(k, v);
    }
    cmd.stdin(Stdio::null())
        .stdout(Stdio::piped())
        .stderr(Stdio::null())
        .spawn()
}

fn describe_exit(status: std::process::ExitStatus) -> String {
    use std::os::unix::process::ExitStatusExt;
    if let Some(sig) = status.signal() {
        let name = match sig {
            6 => "SIGABRT",
            9 => "SIGKILL",
            11 => "SIGSEGV",
            7 => "SIGBUS",
            4 => "SIGILL",
            _ => "signal",
        };
        format!("{name}({sig})")
    } else {
        format!("exit({})", status.code().unwrap_or(-1))
    }
}

/// Runs one worker over [first, first+count) and collects its results.
fn run_worker(cfg: &BatchCfg, first: u64, count: u64, tape_out: Option<&Path>, keep_all: bool) -> Result<WorkerOutcome, String> {
    let mut child = spawn_worker(cfg, first, count, tape_out, keep_all).map_err(|e| format!("cannot spawn worker: {e}"))?;
    let stdout = child.stdout.take().unwrap();
    let (tx, rx) = mpsc::channel::<Line>();
    let reader = std::thread::spawn(move || {
        let r = BufReader::new(stdout);
        for line in r.lines() {
            let Ok(line) = line else { break };
            let msg = if let Some(rest) = line.strip_prefix("START ") {
                rest.trim().parse().ok().map(Line::Start)
            } else if let Some(rest) = line.strip_prefix("NOTE ") {
                Some(Line::Note(rest.to_string()))
            } else if let Some(rest) = line.strip_prefix("R ") {
                serde_json::from_str::<RunResult>(rest).ok().map(|r| Line::Result(Box::new(r)))
            } else {
                None
            };
            if let Some(m) = msg {
                if tx.send(m).is_err() {
                    break;
                }
            }
        }
        let _ = tx.send(Line::Eof);
    });
    let mut results = Vec::new();
    let mut current: Option<u64> = None;
    let mut last_note = String::new();
    let mut hung = false;
    loop {
        match rx.recv_timeout(Duration::from_secs(cfg.watchdog_s)) {
            Ok(Line::Start(i)) => {
                current = Some(i);
                last_note.clear();
            }
            Ok(Line::Note(n)) => last_note = n,
            Ok(Line::Result(r)) => {
                current = None;
                results.push(*r);
            }
            Ok(Line::Eof) => break,
            Err(mpsc::RecvTimeoutError::Timeout) => {
                hung = true;
                let _ = child.kill();
                break;
            }
            Err(mpsc::RecvTimeoutError::Disconnected) => break,
        }
    }
    let status = child.wait().map_err(|e| format!("wait failed: {e}"))?;
    let _ = reader.join();
    let died_at = if hung {
        Some((current.unwrap_or(first), format!("timeout(no output for {}s)", cfg.watchdog_s), last_note))
    } else if !status.success() {
        match current {
            Some(i) => Some((i, describe_exit(status), last_note)),
            None => {
                return Err(format!(
                    "worker for runs {first}..{} ended with {} outside any run",
                    first + count,
                    describe_exit(status)
                ))
            }
        }
    } else {
        if let Some(i) = current {
            return Err(format!("worker exited cleanly without a result for run {i}"));
        }
        None
    };
    Ok(WorkerOutcome { results, died_at })
}

#[derive(Default)]
struct Agg {
    evaluations: u64,
    nontrivial_digests: BTreeSet<String>,
    all_digest_count: HashMap<String, u32>,
    faults: BTreeMap<String, u64>,
    probes: BTreeMap<String, u64>,
    cover: BTreeMap<String, BTreeSet<String>>,
    samples: Vec<Value>,
    violations: Vec<(RunResult, Violation)>,
    harness_errors: Vec<String>,
    digests_by_index: HashMap<u64, String>,
    crashes: Vec<(u64, String, String)>,
}

impl Agg {
    fn absorb(&mut self, r: RunResult, recheck_modulus: u64) {
        self.evaluations += 1;
        if r.nontrivial {
            self.nontrivial_digests.insert(r.digest.clone());
        }
        for (k, v) in &r.faults {
            *self.faults.entry(k.clone()).or_default() += v;
        }
        for (k, v) in &r.probes {
            *self.probes.entry(k.clone()).or_default() += v;
        }
        for (k, v) in &r.cover {
            let e = self.cover.entry(k.clone()).or_default();
            for l in v {
                e.insert(l.clone());
            }
        }
        if recheck_modulus > 0 && r.index % recheck_modulus == 0 {
            self.digests_by_index.insert(r.index, r.digest.clone());
        }
        if let Some(e) = &r.harness_error {
            if self.harness_errors.len() < 20 {
                self.harness_errors.push(format!("run {}: {e}", r.index));
            }
        }
        if r.violation.is_none() && !r.trace.is_empty() && self.samples.len() < 6 {
            self.samples.push(json!({
                "run_index": r.index,
                "run_seed": r.seed,
                "event_log_digest": r.digest,
                "faults_fired": r.faults,
                "tape_len": r.tape.len(),
                "trace": r.trace.iter().take(60).collect::<Vec<_>>(),
            }));
        }
        if let Some(v) = r.violation.clone() {
            self.violations.push((r, v));
        }
    }
}

fn sanitize(s: &str) -> String {
    let mut out: String = s
        .chars()
        .map(|c| if c.is_ascii_alphanumeric() || c == '-' || c == '_' || c == '.' { c } else { '_' })
        .collect();
    out.truncate(80);
    out
}

/// Executes one tape in a fresh child process and returns its result (None = the child died).
pub fn exec_tape(cfg: &BatchCfg, index: u64, tape: &[u64]) -> Result<Option<RunResult>, String> {
    let dir = scratch_root().join(format!("exec-{}", std::process::id()));
    std::fs::create_dir_all(&dir).map_err(|e| e.to_string())?;
    static CTR: std::sync::atomic::AtomicU64 = std::sync::atomic::AtomicU64::new(0);
    let n = CTR.fetch_add(1, std::sync::atomic::Ordering::SeqCst);
    let tf = dir.join(format!("tape-{n}.json"));
    std::fs::write(&tf, serde_json::to_vec(tape).unwrap()).map_err(|e| e.to_string())?;
    let mut cmd = Command::new(exe_for(cfg, index));
    cmd.arg("exec")
        .arg(&cfg.prop)
        .arg(cfg.tier.as_str())
        .arg(cfg.seed.to_string())
        .arg(index.to_string())
        .arg(&tf);
    for (k, v) in &cfg.extra_env {
        cmd.env(k, v);
    }
    let mut child = cmd
        .stdin(Stdio::null())
        .stdout(Stdio::piped())
        .stderr(Stdio::null())
        .spawn()
        .map_err(|e| e.to_string())?;
    let stdout = child.stdout.take().unwrap();
    let (tx, rx) = mpsc::channel();
    std::thread::spawn(move || {
        let mut out = None;
        let mut note = String::new();
        for line in BufReader::new(stdout).lines().map_while(Result::ok) {
            if let Some(rest) = line.strip_prefix("R ") {
                out = serde_json::from_str::<RunResult>(rest).ok();
            } else if let Some(rest) = line.strip_prefix("NOTE ") {
                note = rest.to_string();
            }
        }
        let _ = tx.send((out, note));
    });
    let got = rx.recv_timeout(Duration::from_secs(cfg.watchdog_s));
    let (out, note) = match got {
        Ok(x) => x,
        Err(_) => {
            let _ = child.kill();
            let _ = child.wait();
            let _ = std::fs::remove_file(&tf);
            return Ok(Some(crash_result(cfg, index, &format!("timeout(no output for {}s)", cfg.watchdog_s), "", tape)));
        }
    };
    let status = child.wait().map_err(|e| e.to_string())?;
    let _ = std::fs::remove_file(&tf);
    if let Some(r) = out {
        return Ok(Some(r));
    }
    if !status.success() {
        return Ok(Some(crash_result(cfg, index, &describe_exit(status), &note, tape)));
    }
    Ok(None)
}

fn crash_class(how: &str, note: &str) -> String {
    let kind = how.split('(').next().unwrap_or(how);
    if note.is_empty() {
        format!("abort:{kind}")
    } else {
        format!("abort:{kind}:{note}")
    }
}

fn crash_result(cfg: &BatchCfg, index: u64, how: &str, note: &str, tape: &[u64]) -> RunResult {
    RunResult {
        index,
        seed: crate::tape::mix(cfg.seed, index),
        digest: "crashed".into(),
        nontrivial: true,
        violation: Some(Violation {
            class: crash_class(how, note),
            detail: format!("the process executing the run died: {how}; last stage: {note}"),
        }),
        tape: tape.to_vec(),
        ..Default::default()
    }
}

/// Generic choice-sequence shrinker: delete blocks, zero blocks, halve values, drop the tail.
fn shrink(cfg: &BatchCfg, index: u64, class: &str, tape: Vec<u64>, budget: Duration, max_attempts: usize) -> (Vec<u64>, usize) {
    let start = Instant::now();
    let mut best = tape;
    let mut attempts = 0usize;
    let still_fails = |cand: &[u64], attempts: &mut usize| -> Option<Vec<u64>> {
        *attempts += 1;
        match exec_tape(cfg, index, cand) {
            Ok(Some(r)) => match &r.violation {
                Some(v) if v.class == class => Some(if r.tape.is_empty() { cand.to_vec() } else { r.tape.clone() }),
                _ => None,
            },
            _ => None,
        }
    };
    let mut improved = true;
    while improved && start.elapsed() < budget && attempts < max_attempts {
        improved = false;
        // 1. drop the tail (normalised tape from the run already does that), then delete blocks
        let mut size = (best.len() / 2).max(1);
        while size >= 1 && start.elapsed() < budget && attempts < max_attempts {
            let mut i = 0;
            while i + size <= best.len() && start.elapsed() < budget && attempts < max_attempts {
                let mut cand = best.clone();
                cand.drain(i..i + size);
                if let Some(t) = still_fails(&cand, &mut attempts) {
                    if t.len() < best.len() || t < best {
                        best = t;
                        improved = true;
                        continue;
                    }
                }
                i += size;
            }
            if size == 1 {
                break;
            }
            size /= 2;
        }
        // 2. zero blocks
        let mut size = (best.len() / 2).max(1);
        while size >= 1 && start.elapsed() < budget && attempts < max_attempts {
            let mut i = 0;
            while i < best.len() && start.elapsed() < budget && attempts < max_attempts {
                let end = (i + size).min(best.len());
                if best[i..end].iter().any(|v| *v != 0) {
                    let mut cand = best.clone();
                    for v in &mut cand[i..end] {
                        *v = 0;
                    }
                    if let Some(t) = still_fails(&cand, &mut attempts) {
                        if t.len() <= best.len() && t != best {
                            best = t;
                            improved = true;
                        }
                    }
                }
                i += size;
            }
            if size == 1 {
                break;
            }
            size /= 2;
        }
        // 3. halve / decrement single values
        let mut i = 0;
        while i < best.len() && start.elapsed() < budget && attempts < max_attempts {
            if best[i] > 0 {
                for nv in [best[i] / 2, best[i] - 1] {
                    if nv >= best[i] {
                        continue;
                    }
                    let mut cand = best.clone();
                    cand[i] = nv;
                    if let Some(t) = still_fails(&cand, &mut attempts) {
                        if t.len() <= best.len() && t != best {
                            best = t;
                            improved = true;
                            break;
                        }
                    }
                }
            }
            i += 1;
        }
    }
    (best, attempts)
}

pub fn scratch_root() -> PathBuf {
    let shm = Path::new("/dev/shm");
    let base = if shm.is_dir() {
        shm.to_path_buf()
    } else {
        std::env::temp_dir()
    };
    base.join("wacsim")
}

pub struct BatchReport {
    pub exit_code: i32,
}

pub fn run_batch(cfg: BatchCfg) -> BatchReport {
    let started = Instant::now();
    // (WACSIM_IGNORE_KNOWN is a maintenance switch: it makes open findings produce fresh
    // replay files; never set by the registered commands)
    let known = if std::env::var_os("WACSIM_IGNORE_KNOWN").is_some() {
        Vec::new()
    } else {
        load_known_findings()
    };
    let recheck_modulus = if cfg.recheck == 0 { 0 } else { (cfg.runs / cfg.recheck).max(1) };

    // ---- chunk list ----
    let mut chunks: Vec<(u64, u64)> = Vec::new();
    let mut i = 0u64;
    while i < cfg.runs {
        let mut n = cfg.chunk.min(cfg.runs - i);
        if cfg.arena_sensitive {
            let window_end = (i / crate::seams::RUN_WINDOW + 1) * crate::seams::RUN_WINDOW;
            n = n.min(window_end - i);
        }
        let stride = cfg.variants.len().max(1) as u64;
        for r in 0..stride.min(n) {
            // the worker executes first, first+stride, ... below the end of the range
            chunks.push((i + r, n - r));
        }
        i += n;
    }
    let total_chunks = chunks.len();
    let queue = Arc::new(Mutex::new(chunks.into_iter().collect::<std::collections::VecDeque<_>>()));
    let agg = Arc::new(Mutex::new(Agg::default()));
    let fatal: Arc<Mutex<Option<String>>> = Arc::new(Mutex::new(None));
    let skipped = Arc::new(Mutex::new(0u64));

    let mut handles = Vec::new();
    for _ in 0..cfg.workers.max(1) {
        let queue = queue.clone();
        let agg = agg.clone();
        let fatal = fatal.clone();
        let cfg = cfg.clone();
        let skipped = skipped.clone();
        handles.push(std::thread::spawn(move || loop {
            let next = queue.lock().unwrap().pop_front();
            let Some((mut first, mut count)) = next else { break };
            if fatal.lock().unwrap().is_some() {
                break;
            }
            if started.elapsed().as_secs() > cfg.batch_wall_s {
                *skipped.lock().unwrap() += count;
                continue;
            }
            while count > 0 {
                match run_worker(&cfg, first, count, None, false) {
                    Err(e) => {
                        *fatal.lock().unwrap() = Some(e);
                        return;
                    }
                    Ok(out) => {
                        let mut a = agg.lock().unwrap();
                        for r in out.results {
                            a.absorb(r, recheck_modulus);
                        }
                        match out.died_at {
                            None => break,
                            Some((idx, how, note)) => {
                                a.crashes.push((idx, how, note));
                                let stride = cfg.variants.len().max(1) as u64;
                                let done = idx + stride - first;
                                first = idx + stride;
                                count -= done.min(count);
                            }
                        }
                    }
                }
            }
        }));
    }
    for h in handles {
        let _ = h.join();
    }
    if let Some(e) = fatal.lock().unwrap().clone() {
        eprintln!("harness error: {e}");
        return BatchReport { exit_code: 2 };
    }
    let mut agg = std::mem::take(&mut *agg.lock().unwrap());
    let skipped = *skipped.lock().unwrap();
    let main_wall = started.elapsed().as_secs_f64();

    // ---- crash confirmation: re-execute alone in a fresh worker, recording the tape ----
    let crashes = std::mem::take(&mut agg.crashes);
    let mut crash_classes_seen = BTreeSet::new();
    let mut crashed_runs: Vec<Value> = Vec::new();
    for (idx, how, note) in crashes {
        if !cfg.crashes_are_violations {
            agg.evaluations += 1;
            if crashed_runs.len() < 20 {
                crashed_runs.push(json!({"run_index": idx, "how": how, "stage": note}));
            }
            continue;
        }
        let class_guess = crash_class(&how, &note);
        if crash_classes_seen.contains(&class_guess) && crash_classes_seen.len() > 0 {
            // same class already confirmed once in this batch; count it but do not re-run
            agg.evaluations += 1;
            continue;
        }
        let dir = scratch_root().join(format!("confirm-{}", std::process::id()));
        let _ = std::fs::create_dir_all(&dir);
        let tf = dir.join(format!("tape-{idx}.txt"));
        let _ = std::fs::remove_file(&tf);
        match run_worker(&cfg, idx, 1, Some(&tf), true) {
            Err(e) => {
                eprintln!("harness error: {e}");
                return BatchReport { exit_code: 2 };
            }
            Ok(out) => {
                agg.evaluations += 1;
                if let Some((_, how2, note2)) = out.died_at {
                    let tape: Vec<u64> = std::fs::read_to_string(&tf)
                        .unwrap_or_default()
                        .lines()
                        .filter_map(|l| l.trim().parse().ok())
                        .collect();
                    let r = crash_result(&cfg, idx, &how2, &note2, &tape);
                    crash_classes_seen.insert(r.violation.as_ref().unwrap().class.clone());
                    let v = r.violation.clone().unwrap();
                    agg.violations.push((r, v));
                } else {
                    // did not die when run alone: attribute the first death to the machine, not to wac
                    eprintln!("note: run {idx} died once ({how}) but completed when re-executed alone; not counted");
                    for r in out.results {
                        agg.absorb(r, recheck_modulus);
                    }
                }
                let _ = std::fs::remove_file(&tf);
            }
        }
    }

    // ---- determinism self-check: re-execute a sample in different workers / chunking ----
    let mut determinism_runs = 0u64;
    let mut determinism_mismatches: Vec<u64> = Vec::new();
    if recheck_modulus > 0 && !agg.digests_by_index.is_empty() {
        let mut idxs: Vec<u64> = agg.digests_by_index.keys().copied().collect();
        idxs.sort();
        idxs.truncate(cfg.recheck as usize);
        let results: Arc<Mutex<Vec<RunResult>>> = Arc::new(Mutex::new(Vec::new()));
        let q = Arc::new(Mutex::new(idxs.clone().into_iter().collect::<std::collections::VecDeque<_>>()));
        let mut hs = Vec::new();
        // a different worker count than the main batch on purpose
        let w = if cfg.workers > 4 { cfg.workers / 2 + 1 } else { 1 };
        for _ in 0..w {
            let q = q.clone();
            let results = results.clone();
            let cfg = cfg.clone();
            hs.push(std::thread::spawn(move || loop {
                let Some(i) = q.lock().unwrap().pop_front() else { break };
                if let Ok(out) = run_worker(&cfg, i, 1, None, false) {
                    results.lock().unwrap().extend(out.results);
                }
            }));
        }
        for h in hs {
            let _ = h.join();
        }
        for r in results.lock().unwrap().iter() {
            determinism_runs += 1;
            if agg.digests_by_index.get(&r.index) != Some(&r.digest) {
                determinism_mismatches.push(r.index);
            }
        }
    }

    // ---- violations: group by class, minimise, write replay files, confirm ----
    let mut by_class: BTreeMap<String, Vec<(RunResult, Violation)>> = BTreeMap::new();
    for (r, v) in std::mem::take(&mut agg.violations) {
        by_class.entry(v.class.clone()).or_default().push((r, v));
    }
    let mut violation_lines: Vec<String> = Vec::new();
    let mut known_lines: Vec<String> = Vec::new();
    let mut violation_summaries: Vec<Value> = Vec::new();
    let replay_dir = verif_root().join("replays").join(&cfg.prop);
    let mut unknown = 0u64;
    let n_classes = by_class.len().max(1);
    for (class, mut items) in by_class {
        items.sort_by_key(|(r, _)| (r.tape.len(), r.index));
        let count = items.len();
        let (r, v) = items.remove(0);
        let matching: Vec<&KnownFinding> = known
            .iter()
            .filter(|k| k.property == cfg.prop && k.status == "open" && k.signature == class)
            .collect();
        if let Some(k) = matching.first() {
            known_lines.push(format!(
                "KNOWN-FINDING: property={} {} [signature {}; {} run(s) in this batch; replay {}]",
                cfg.prop,
                k.what,
                class,
                count,
                k.replay.clone().unwrap_or_else(|| "-".into())
            ));
            violation_summaries.push(json!({"class": class, "runs": count, "known_finding": true}));
            continue;
        }
        unknown += count as u64;
        // minimise
        let budget = Duration::from_secs((60 / n_classes as u64).max(10));
        let orig_len = r.tape.len();
        let (min_tape, attempts) = if r.tape.is_empty() {
            (r.tape.clone(), 0)
        } else {
            shrink(&cfg, r.index, &class, r.tape.clone(), budget, 2000)
        };
        // confirm in a fresh process
        let confirm = exec_tape(&cfg, r.index, &min_tape).ok().flatten();
        let (reproduced, final_detail, final_trace) = match &confirm {
            Some(c) => match &c.violation {
                Some(cv) if cv.class == class => (true, cv.detail.clone(), c.trace.clone()),
                _ => (false, v.detail.clone(), r.trace.clone()),
            },
            None => (false, v.detail.clone(), r.trace.clone()),
        };
        let (tape_final, minimised) = if reproduced { (min_tape, true) } else { (r.tape.clone(), false) };
        let _ = std::fs::create_dir_all(&replay_dir);
        let path = replay_dir.join(format!("{}-{}-{}.json", sanitize(&class), cfg.seed, r.index));
        let rf = ReplayFile {
            property: cfg.prop.clone(),
            class: class.clone(),
            detail: final_detail.clone(),
            seed: cfg.seed,
            index: r.index,
            tier: cfg.tier,
            tape: tape_final,
            trace: final_trace,
            minimised,
            original_tape_len: orig_len,
            reproduced,
            env: cfg.extra_env.iter().cloned().collect(),
        };
        if let Err(e) = std::fs::write(&path, serde_json::to_vec_pretty(&rf).unwrap()) {
            eprintln!("harness error: cannot write replay file {}: {e}", path.display());
            return BatchReport { exit_code: 2 };
        }
        println!(
            "violation class={class} runs={count} first_index={} tape {}→{} draws ({} shrink attempts) reproduced_in_fresh_process={reproduced}",
            r.index,
            orig_len,
            rf.tape.len(),
            attempts
        );
        println!("  {final_detail}");
        violation_lines.push(format!("VIOLATION property={} replay={}", cfg.prop, path.display()));
        violation_summaries.push(json!({"class": class, "runs": count, "replay": path.display().to_string(), "reproduced": reproduced, "detail": final_detail}));
    }

    // ---- known findings that did not show up in the batch: run their replay files ----
    for k in known.iter().filter(|k| k.property == cfg.prop && k.status == "open") {
        if known_lines.iter().any(|l| l.contains(&format!("[signature {};", k.signature))) {
            continue;
        }
        if let Some(rp) = &k.replay {
            let p = verif_root().join(rp);
            if let Ok(s) = std::fs::read_to_string(&p) {
                if let Ok(rf) = serde_json::from_str::<ReplayFile>(&s) {
                    let mut c2 = cfg.clone();
                    c2.tier = rf.tier;
                    c2.seed = rf.seed;
                    c2.extra_env = rf.env.clone().into_iter().collect();
                    if let Ok(Some(r)) = exec_tape(&c2, rf.index, &rf.tape) {
                        agg.evaluations += 1;
                        if r.violation.as_ref().map(|v| v.class == k.signature).unwrap_or(false) {
                            known_lines.push(format!(
                                "KNOWN-FINDING: property={} {} [signature {}; reproduced from replay {}]",
                                cfg.prop, k.what, k.signature, rp
                            ));
                        } else {
                            println!(
                                "note: known finding `{}` no longer reproduces from {} (fixed?)",
                                k.signature, rp
                            );
                        }
                    }
                }
            }
        }
    }

    // ---- evidence ----
    let wall = started.elapsed().as_secs_f64();
    let distinct = agg.nontrivial_digests.len() as u64;
    let runs_per_hour = if main_wall > 0.0 { (agg.evaluations as f64 / main_wall * 3600.0) as u64 } else { 0 };
    let cover_counts: BTreeMap<String, Value> = agg
        .cover
        .iter()
        .map(|(k, v)| {
            let labels: Vec<&String> = v.iter().take(40).collect();
            (k.clone(), json!({"distinct": v.len(), "labels": labels}))
        })
        .collect();
    let zero_probes: Vec<String> = cfg
        .expected_probes
        .iter()
        .filter(|p| {
            agg.probes.get(*p).copied().unwrap_or(0) == 0 && agg.faults.get(*p).copied().unwrap_or(0) == 0
        })
        .cloned()
        .collect();
    let sim_time_s = agg.probes.get("sim_time_us").map(|us| *us as f64 / 1e6);
    let mut coverage = json!({
        "evaluations": agg.evaluations,
        "distinct_nontrivial": distinct,
        "rule": cfg.rule,
        "samples": agg.samples,
        "exhaustive": false,
        "runs_per_hour": runs_per_hour,
        "seeds_per_hour": runs_per_hour,
        "seeds": format!("run i uses mix(VERIF_SEED={}, i), i in 0..{}", cfg.seed, cfg.runs),
        "fault_fires": agg.faults,
        "probes": agg.probes,
        "cover": cover_counts,
        "probes_stuck_at_zero": zero_probes,
        "determinism_selfcheck": {"runs_reexecuted": determinism_runs, "mismatches": determinism_mismatches.len(), "mismatching_indices": determinism_mismatches.iter().take(10).collect::<Vec<_>>()},
        "components": cfg.components,
        "skipped_runs_wall_cap": skipped,
        "chunks": total_chunks,
        "worker_processes": cfg.workers,
        "violation_classes": violation_summaries,
        "known_findings_reproduced": known_lines.len(),
        "crashed_runs_not_judged": crashed_runs,
    });
    if let Some(s) = sim_time_s {
        coverage["simulated_time_s"] = json!(s);
    }
    let evidence = json!({
        "property_id": cfg.prop,
        "tier": cfg.tier.as_str(),
        "seed": cfg.seed,
        "level": cfg.level,
        "coverage": coverage,
        "assumptions": cfg.assumptions,
        "wall_s": wall,
        "violations": unknown,
    });
    println!(
        "determinism self-check: {determinism_runs} runs re-executed alone in fresh processes, {} event-log digests differ",
        determinism_mismatches.len()
    );
    if std::env::var_os("WACSIM_NO_EVIDENCE").is_some() {
        if !determinism_mismatches.is_empty() {
            eprintln!("harness error: non-deterministic runs {:?}", &determinism_mismatches[..determinism_mismatches.len().min(10)]);
            return BatchReport { exit_code: 2 };
        }
        return BatchReport { exit_code: if violation_lines.is_empty() { 0 } else { 1 } };
    }
    let ev_dir = verif_root().join("evidence");
    let _ = std::fs::create_dir_all(&ev_dir);
    let ev_path = ev_dir.join(format!("{}.json", cfg.prop));
    let tmp = ev_dir.join(format!(".{}.json.tmp", cfg.prop));
    let write = std::fs::File::create(&tmp).and_then(|mut f| {
        f.write_all(&serde_json::to_vec_pretty(&evidence).unwrap())?;
        f.write_all(b"\n")
    });
    if let Err(e) = write.and_then(|_| std::fs::rename(&tmp, &ev_path)) {
        eprintln!("harness error: cannot write evidence: {e}");
        return BatchReport { exit_code: 2 };
    }

    println!(
        "{} {}: {} runs ({} distinct non-trivial), {:.1}s, {} runs/h, faults fired: {:?}",
        cfg.prop,
        cfg.tier.as_str(),
        agg.evaluations,
        distinct,
        wall,
        runs_per_hour,
        agg.faults
    );
    for l in &known_lines {
        println!("{l}");
    }
    if !agg.harness_errors.is_empty() {
        for e in &agg.harness_errors {
            eprintln!("harness error: {e}");
        }
        return BatchReport { exit_code: 2 };
    }
    if !determinism_mismatches.is_empty() && cfg.prop != "C16" {
        eprintln!(
            "harness error: determinism self-check failed for run indices {:?} (same seed, different event log)",
            &determinism_mismatches[..determinism_mismatches.len().min(10)]
        );
        return BatchReport { exit_code: 2 };
    }
    for l in &violation_lines {
        println!("{l}");
    }
    if !violation_lines.is_empty() {
        return BatchReport { exit_code: 1 };
    }
    if agg.evaluations == 0 {
        eprintln!("harness error: no run was executed");
        return BatchReport { exit_code: 2 };
    }
    BatchReport { exit_code: 0 }
}
