//! wacsim — deterministic simulation with fault injection for bytecodealliance/wac.
//!
//!   wacsim batch  <PROP> <quick|thorough>        supervisor: run a batch, write evidence, exit 0/1/2
//!   wacsim worker <PROP> <tier> <seed> <first> <count> <sample_every> [--tape-out F] [--keep]
//!   wacsim exec   <PROP> <tier> <seed> <index> <tape.json>
//!   wacsim replay <replay-file.json>
//!   wacsim selfcheck

mod cli;
mod corpus;
mod engine;
mod gen;
mod props;
#[cfg(feature = "reg")]
mod regmodel;
mod seams;
mod supervisor;
mod tape;

use engine::{execute, PropDef, TapeSource, Tier, DEFAULT_SEED};
use std::io::Write;
use std::path::PathBuf;

fn props() -> Vec<PropDef> {
    #[allow(unused_mut)]
    let mut v: Vec<PropDef> = Vec::new();
    #[cfg(feature = "reg")]
    v.push(PropDef {
        id: "C20",
        run: props::c20::run,
        arena_sensitive: false,
    });
    v.push(PropDef {
        id: "C14",
        run: props::c14::run,
        arena_sensitive: false,
    });
    v.push(PropDef {
        id: "C18",
        run: props::c18::run,
        arena_sensitive: false,
    });
    v.push(PropDef {
        id: "C19",
        run: props::c19::run,
        arena_sensitive: false,
    });
    v.push(PropDef {
        id: "C16",
        run: props::c16::run,
        arena_sensitive: true,
    });
    v
}

fn find_prop(id: &str) -> PropDef {
    match props().into_iter().find(|p| p.id == id) {
        Some(p) => p,
        None => {
            eprintln!("harness error: property {id} is not built into this wacsim variant");
            std::process::exit(2);
        }
    }
}

fn env_u64(name: &str) -> Option<u64> {
    std::env::var(name).ok().and_then(|v| v.trim().parse().ok())
}

fn scratch_dir() -> PathBuf {
    let d = supervisor::scratch_root().join(format!("w-{}", std::process::id()));
    let _ = std::fs::create_dir_all(&d);
    d
}

fn emit(r: &engine::RunResult) {
    let out = std::io::stdout();
    let mut out = out.lock();
    let _ = writeln!(out, "R {}", serde_json::to_string(r).unwrap());
    let _ = out.flush();
}

pub fn note(stage: &str) {
    let out = std::io::stdout();
    let mut out = out.lock();
    let _ = writeln!(out, "NOTE {stage}");
    let _ = out.flush();
}

fn main() {
    seams::install_panic_hook();
    let args: Vec<String> = std::env::args().collect();
    let cmd = args.get(1).map(|s| s.as_str()).unwrap_or("");
    match cmd {
        "worker" => {
            let prop = find_prop(&args[2]);
            let tier = Tier::parse(&args[3]).expect("tier");
            let seed: u64 = args[4].parse().expect("seed");
            let first: u64 = args[5].parse().expect("first");
            let count: u64 = args[6].parse().expect("count");
            let sample_every: u64 = args[7].parse().expect("sample_every");
            let mut tape_out: Option<PathBuf> = None;
            let mut keep = false;
            let mut stride: u64 = 1;
            let mut i = 8;
            while i < args.len() {
                match args[i].as_str() {
                    "--tape-out" => {
                        tape_out = Some(PathBuf::from(&args[i + 1]));
                        i += 1;
                    }
                    "--keep" => keep = true,
                    "--stride" => {
                        stride = args[i + 1].parse().expect("stride");
                        i += 1;
                    }
                    _ => {}
                }
                i += 1;
            }
            let scratch = scratch_dir();
            for index in (first..first + count).step_by(stride.max(1) as usize) {
                {
                    let out = std::io::stdout();
                    let mut out = out.lock();
                    let _ = writeln!(out, "START {index}");
                    let _ = out.flush();
                }
                if let Some(p) = &tape_out {
                    engine::set_tape_sink(p.clone());
                }
                let keep_this = keep || (sample_every > 0 && index % sample_every == 0);
                let r = execute(
                    &prop,
                    index,
                    seed,
                    tier,
                    TapeSource::Seed(tape::mix(seed, index)),
                    &scratch,
                    keep_this,
                );
                emit(&r);
            }
            let _ = std::fs::remove_dir_all(&scratch);
        }
        "exec" => {
            let prop = find_prop(&args[2]);
            let tier = Tier::parse(&args[3]).expect("tier");
            let seed: u64 = args[4].parse().expect("seed");
            let index: u64 = args[5].parse().expect("index");
            let tape: Vec<u64> =
                serde_json::from_slice(&std::fs::read(&args[6]).expect("tape file")).expect("tape json");
            let scratch = scratch_dir();
            let r = execute(&prop, index, seed, tier, TapeSource::Replay(tape), &scratch, true);
            emit(&r);
            let _ = std::fs::remove_dir_all(&scratch);
        }
        "replay" => {
            let text = match std::fs::read_to_string(&args[2]) {
                Ok(t) => t,
                Err(e) => {
                    eprintln!("harness error: cannot read {}: {e}", args[2]);
                    std::process::exit(2);
                }
            };
            let rf: supervisor::ReplayFile = match serde_json::from_str(&text) {
                Ok(r) => r,
                Err(e) => {
                    eprintln!("harness error: cannot parse {}: {e}", args[2]);
                    std::process::exit(2);
                }
            };
            for (k, v) in &rf.env {
                std::env::set_var(k, v);
            }
            let cfg = props::batch_cfg(&rf.property, rf.tier, rf.seed);
            let mut cfg = cfg;
            cfg.extra_env = rf.env.clone().into_iter().collect();
            match supervisor::exec_tape(&cfg, rf.index, &rf.tape) {
                Ok(Some(r)) => {
                    for l in &r.trace {
                        println!("  | {l}");
                    }
                    match r.violation {
                        Some(v) => {
                            println!("replayed: class={} {}", v.class, v.detail);
                            if v.class == rf.class {
                                println!("VIOLATION property={} replay={}", rf.property, args[2]);
                                std::process::exit(1);
                            } else {
                                println!("(a different class than recorded: {})", rf.class);
                                println!("VIOLATION property={} replay={}", rf.property, args[2]);
                                std::process::exit(1);
                            }
                        }
                        None => {
                            println!("replayed: no violation (recorded class was {})", rf.class);
                            std::process::exit(0);
                        }
                    }
                }
                Ok(None) => {
                    eprintln!("harness error: replay child produced no result");
                    std::process::exit(2);
                }
                Err(e) => {
                    eprintln!("harness error: {e}");
                    std::process::exit(2);
                }
            }
        }
        "batch" => {
            let prop_id = args.get(2).cloned().unwrap_or_default();
            let tier = args
                .get(3)
                .and_then(|t| Tier::parse(t))
                .or_else(|| std::env::var("VERIF_TIER").ok().and_then(|t| Tier::parse(&t)))
                .unwrap_or(Tier::Quick);
            let seed = env_u64("VERIF_SEED").unwrap_or(DEFAULT_SEED);
            let _ = find_prop(&prop_id);
            match seams::seam_h_selfcheck() {
                Ok(_) => {}
                Err(e) => {
                    eprintln!("harness error: {e}");
                    std::process::exit(2);
                }
            }
            let mut cfg = props::batch_cfg(&prop_id, tier, seed);
            if let Some(n) = env_u64("VERIF_RUNS") {
                cfg.runs = n;
            }
            if let Some(n) = env_u64("VERIF_WORKERS") {
                cfg.workers = n as usize;
            }
            let report = supervisor::run_batch(cfg);
            std::process::exit(report.exit_code);
        }
        "dump-lib" => {
            let dir = PathBuf::from(&args[2]);
            let _ = std::fs::create_dir_all(&dir);
            for p in corpus::library() {
                let f = format!("{}{}.wasm", p.name.replace(':', "_"), p.version.map(|v| format!("@{v}")).unwrap_or_default());
                std::fs::write(dir.join(f), &p.bytes).unwrap();
            }
        }
        "print-wat" => {
            let bytes = std::fs::read(&args[2]).expect("file");
            match wasmprinter::print_bytes(&bytes) {
                Ok(t) => println!("{t}"),
                Err(e) => eprintln!("cannot print: {e:#}"),
            }
        }
        "c14-doc" => {
            let src = std::fs::read_to_string(&args[2]).expect("file");
            println!("{}", props::c14::debug_doc(src));
        }
        "c14-dump" => {
            let (what, bytes) = props::c14::dump_point(args[2].parse().unwrap());
            eprintln!("{what}");
            std::fs::write(&args[3], bytes).unwrap();
        }
        "c14-point" => {
            let pkg = args[3].parse::<usize>().ok();
            let p = props::c14::find_point(&args[2], pkg, &args[4], args[5].parse().unwrap(), args[6].parse().unwrap());
            println!("{p:?} of {}", props::c14::enum_total());
        }
        "corpus" => {
            print!("{}", corpus::describe());
        }
        "determinism" => {
            // every run of a small batch is executed twice: once in chunked workers (16 at a
            // time), once alone in a fresh process (9 at a time); event-log digests must agree
            let prop_id = args.get(2).cloned().unwrap_or_default();
            let n: u64 = args.get(3).and_then(|v| v.parse().ok()).unwrap_or(600);
            let seed = env_u64("VERIF_SEED").unwrap_or(DEFAULT_SEED);
            let _ = find_prop(&prop_id);
            let mut cfg = props::batch_cfg(&prop_id, Tier::Quick, seed);
            cfg.runs = n;
            cfg.recheck = n;
            std::env::set_var("WACSIM_NO_EVIDENCE", "1");
            let report = supervisor::run_batch(cfg);
            std::process::exit(report.exit_code);
        }
        "selfcheck" => match seams::seam_h_selfcheck() {
            Ok(n) => println!("seam H live: 16 hash seeds gave {n} canary orders, each reproducible"),
            Err(e) => {
                eprintln!("harness error: {e}");
                std::process::exit(2);
            }
        },
        _ => {
            eprintln!("usage: wacsim batch|worker|exec|replay|selfcheck …");
            std::process::exit(2);
        }
    }
}
