//! One integer decides everything: the choice tape.
//!
//! Every decision of a simulated run (workload shape, fault placement, hash
//! seeds, which task runs next, latencies, which legal answer a stub gives)
//! is a `draw`. In exploration mode draws come from a PRNG seeded from
//! `mix(VERIF_SEED, run_index)` and are recorded; in replay mode they are read
//! back from the recorded (possibly shrunk) tape, `0` once it is exhausted.
//! Nothing else (clock, pid, address, map order) is ever consulted.

use sha2::{Digest, Sha256};

pub fn splitmix64(state: &mut u64) -> u64 {
    *state = state.wrapping_add(0x9E37_79B9_7F4A_7C15);
    let mut z = *state;
    z = (z ^ (z >> 30)).wrapping_mul(0xBF58_476D_1CE4_E5B9);
    z = (z ^ (z >> 27)).wrapping_mul(0x94D0_49BB_1331_11EB);
    z ^ (z >> 31)
}

/// Derives the seed of run `index` from the batch seed.
pub fn mix(seed: u64, index: u64) -> u64 {
    let mut s = seed ^ 0xA076_1D64_78BD_642F;
    let a = splitmix64(&mut s);
    let mut t = index.wrapping_mul(0xE703_7ED1_A0B4_28DB) ^ a;
    splitmix64(&mut t)
}

/// xoshiro256** seeded through splitmix64.
#[derive(Clone)]
pub struct Rng([u64; 4]);

impl Rng {
    pub fn new(seed: u64) -> Self {
        let mut s = seed;
        Rng([
            splitmix64(&mut s),
            splitmix64(&mut s),
            splitmix64(&mut s),
            splitmix64(&mut s),
        ])
    }

    pub fn next(&mut self) -> u64 {
        let s = &mut self.0;
        let result = s[1].wrapping_mul(5).rotate_left(7).wrapping_mul(9);
        let t = s[1] << 17;
        s[2] ^= s[0];
        s[3] ^= s[1];
        s[1] ^= s[2];
        s[0] ^= s[3];
        s[2] ^= t;
        s[3] = s[3].rotate_left(45);
        result
    }
}

fn echo_enabled() -> bool {
    static ECHO: std::sync::OnceLock<bool> = std::sync::OnceLock::new();
    *ECHO.get_or_init(|| std::env::var_os("WACSIM_TRACE").is_some())
}

enum Mode {
    Explore(Rng),
    Replay,
}

/// The choice tape plus the run's event log.
pub struct Tape {
    mode: Mode,
    /// The recorded draws, stored as the value returned (already reduced).
    draws: Vec<u64>,
    pos: usize,
    /// The values actually returned (normalised tape).
    used: Vec<u64>,
    /// Human readable trace of the run (scenario, faults, schedule).
    pub trace: Vec<String>,
    hasher: Sha256,
    pub events: u64,
    trace_cap: usize,
    /// Optional side file every draw is appended to as it happens (crash forensics).
    sink: Option<std::fs::File>,
}

impl Tape {
    pub fn explore(seed: u64) -> Self {
        Tape {
            mode: Mode::Explore(Rng::new(seed)),
            draws: Vec::new(),
            pos: 0,
            used: Vec::new(),
            trace: Vec::new(),
            hasher: Sha256::new(),
            events: 0,
            trace_cap: 400,
            sink: None,
        }
    }

    pub fn replay(draws: Vec<u64>) -> Self {
        Tape {
            mode: Mode::Replay,
            draws,
            pos: 0,
            used: Vec::new(),
            trace: Vec::new(),
            hasher: Sha256::new(),
            events: 0,
            trace_cap: 4000,
            sink: None,
        }
    }

    pub fn set_sink(&mut self, f: std::fs::File) {
        self.sink = Some(f);
    }

    /// A value in `0..n` (`0` if `n <= 1`).
    pub fn draw(&mut self, n: u64) -> u64 {
        let v = self.draw_inner(n);
        self.used.push(v);
        if let Some(f) = &mut self.sink {
            use std::io::Write;
            let _ = writeln!(f, "{v}");
        }
        v
    }

    fn draw_inner(&mut self, n: u64) -> u64 {
        match &mut self.mode {
            Mode::Explore(rng) => {
                let v = if n <= 1 { 0 } else { rng.next() % n };
                self.pos += 1;
                v
            }
            Mode::Replay => {
                let raw = self.draws.get(self.pos).copied().unwrap_or(0);
                self.pos += 1;
                if n <= 1 {
                    0
                } else {
                    raw % n
                }
            }
        }
    }

    /// A draw whose exploration-mode value is chosen by the caller (`preset % n`) instead of
    /// the PRNG; recorded on the tape like any other draw, so a replay reads it back.
    pub fn draw_preset(&mut self, n: u64, preset: u64) -> u64 {
        let v = match &mut self.mode {
            Mode::Explore(_) => {
                self.pos += 1;
                if n <= 1 {
                    0
                } else {
                    preset % n
                }
            }
            Mode::Replay => self.draw_inner(n),
        };
        self.used.push(v);
        if let Some(f) = &mut self.sink {
            use std::io::Write;
            let _ = writeln!(f, "{v}");
        }
        v
    }

    /// A value in `lo..=hi`.
    pub fn range(&mut self, lo: u64, hi: u64) -> u64 {
        debug_assert!(hi >= lo);
        lo + self.draw(hi - lo + 1)
    }

    /// True with probability `num/den`.
    pub fn chance(&mut self, num: u64, den: u64) -> bool {
        // "0" is the simple outcome (false) so that shrinking towards zero removes faults.
        self.draw(den) >= den - num.min(den)
    }

    pub fn pick<'a, T>(&mut self, items: &'a [T]) -> &'a T {
        &items[self.draw(items.len() as u64) as usize]
    }

    pub fn index(&mut self, len: usize) -> usize {
        self.draw(len as u64) as usize
    }

    /// Fisher-Yates with tape draws.
    pub fn shuffle<T>(&mut self, items: &mut [T]) {
        for i in (1..items.len()).rev() {
            let j = self.draw(i as u64 + 1) as usize;
            // draw 0 == keep in place, so the all-zero tape is the identity permutation
            items.swap(i, i - j);
        }
    }

    /// Appends an event to the event log (digest + bounded human-readable trace).
    /// Never draws and never reads a clock.
    pub fn event(&mut self, e: impl AsRef<str>) {
        let e = e.as_ref();
        if echo_enabled() {
            eprintln!("  | {e}");
        }
        self.hasher.update((e.len() as u64).to_le_bytes());
        self.hasher.update(e.as_bytes());
        self.events += 1;
        if self.trace.len() < self.trace_cap {
            self.trace.push(e.to_string());
        } else if self.trace.len() == self.trace_cap {
            self.trace.push("… (trace truncated)".to_string());
        }
    }

    /// Adds to the human-readable trace only (not to the digest).
    pub fn note(&mut self, e: impl Into<String>) {
        if self.trace.len() < self.trace_cap {
            self.trace.push(e.into());
        }
    }

    pub fn digest(&self) -> String {
        let d = self.hasher.clone().finalize();
        hex(&d[..12])
    }

    /// The draws consumed so far, as returned (a normalised tape that replays identically).
    pub fn recorded(&self) -> Vec<u64> {
        self.used.clone()
    }

    pub fn draws_used(&self) -> usize {
        self.pos
    }
}

pub fn hex(bytes: &[u8]) -> String {
    let mut s = String::with_capacity(bytes.len() * 2);
    for b in bytes {
        s.push_str(&format!("{b:02x}"));
    }
    s
}

pub fn sha256_hex(bytes: &[u8]) -> String {
    hex(&Sha256::digest(bytes)[..16])
}
