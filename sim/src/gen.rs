//! Workload generators shared by C14 / C16 / C19: WAC documents over the component
//! library, and the shipped `.wac` files with their dependency trees.

use crate::corpus::{library, Pkg};
use crate::tape::Tape;
use std::path::{Path, PathBuf};
use std::sync::OnceLock;

/// A document together with the package bytes it may be resolved against.
#[derive(Debug, Clone)]
pub struct DocCase {
    pub label: String,
    pub source: String,
    /// (name, version, bytes)
    pub packages: Vec<(String, Option<String>, std::sync::Arc<Vec<u8>>)>,
    /// Probes computed from the construction (e.g. "≥2_missing_with_names").
    pub probes: Vec<&'static str>,
}

fn lib_packages() -> Vec<(String, Option<String>, std::sync::Arc<Vec<u8>>)> {
    static CACHE: OnceLock<Vec<(String, Option<String>, std::sync::Arc<Vec<u8>>)>> = OnceLock::new();
    CACHE
        .get_or_init(|| {
            library()
                .iter()
                .map(|p| {
                    (
                        p.name.to_string(),
                        p.version.map(|v| v.to_string()),
                        std::sync::Arc::new(p.bytes.clone()),
                    )
                })
                .collect()
        })
        .clone()
}

fn pkg_ref(p: &Pkg) -> String {
    match p.version {
        Some(v) => format!("{}@{}", p.name, v),
        None => p.name.to_string(),
    }
}

const PRIMS: &[&str] = &[
    "u8", "u16", "u32", "u64", "s8", "s16", "s32", "s64", "f32", "f64", "bool", "char", "string",
];

struct DocGen<'t> {
    t: &'t mut Tape,
    out: String,
    /// value type names declared so far (usable in type positions)
    types: Vec<String>,
    interfaces: Vec<String>,
    worlds: Vec<String>,
    /// (local name, library index) of instances
    instances: Vec<(String, usize)>,
    /// local names bound to something else (funcs, aliases of exports, imports)
    others: Vec<String>,
    /// imported inline interfaces: (local name, exports as (name, kind)); kind is
    /// 'r' resource, 't' value type, 'f' function
    imp_ifaces: Vec<(String, Vec<(String, char)>)>,
    /// local interfaces with the type names they declare (usable in `use`)
    iface_types: Vec<(String, Vec<String>)>,
    /// local names bound (by `let`) to a resource type of an instance
    resources: Vec<String>,
    counter: usize,
    probes: Vec<&'static str>,
    error_rate: u64, // per 100: how often to do something deliberately wrong
}

impl<'t> DocGen<'t> {
    fn fresh(&mut self, prefix: &str) -> String {
        self.counter += 1;
        format!("{prefix}{}", self.counter)
    }

    fn wrong(&mut self) -> bool {
        self.error_rate > 0 && self.t.chance(self.error_rate, 100)
    }

    fn ty(&mut self, depth: u32) -> String {
        let n = if depth >= 3 { 2 } else { 8 };
        match self.t.draw(n) {
            0 => self.t.pick(PRIMS).to_string(),
            1 if !self.types.is_empty() => {
                let i = self.t.index(self.types.len());
                self.types[i].clone()
            }
            1 => "u32".into(),
            2 => format!("list<{}>", self.ty(depth + 1)),
            3 => format!("option<{}>", self.ty(depth + 1)),
            4 => {
                let k = self.t.range(1, 3);
                let parts: Vec<String> = (0..k).map(|_| self.ty(depth + 1)).collect();
                format!("tuple<{}>", parts.join(", "))
            }
            5 => match self.t.draw(4) {
                0 => "result".to_string(),
                1 => format!("result<{}>", self.ty(depth + 1)),
                2 => format!("result<_, {}>", self.ty(depth + 1)),
                _ => format!("result<{}, {}>", self.ty(depth + 1), self.ty(depth + 1)),
            },
            6 if !self.types.is_empty() => {
                let i = self.t.index(self.types.len());
                self.types[i].clone()
            }
            7 if !self.resources.is_empty() => {
                let i = self.t.index(self.resources.len());
                if self.t.chance(1, 2) {
                    format!("borrow<{}>", self.resources[i])
                } else {
                    self.resources[i].clone()
                }
            }
            _ => self.t.pick(PRIMS).to_string(),
        }
    }

    fn func_type(&mut self) -> String {
        let np = self.t.draw(4);
        let params: Vec<String> = (0..np)
            .map(|i| format!("p{i}: {}", self.ty(1)))
            .collect();
        let res = if self.t.chance(1, 2) {
            format!(" -> {}", self.ty(1))
        } else {
            String::new()
        };
        format!("func({}){}", params.join(", "), res)
    }

    fn type_statement(&mut self) {
        match self.t.draw(8) {
            6 => {
                // an alias of whatever a local name is bound to (function, instance, resource,
                // value type, alias of an export): accepted or rejected, never a crash
                let mut pool: Vec<String> = Vec::new();
                pool.extend(self.others.iter().cloned());
                pool.extend(self.resources.iter().cloned());
                pool.extend(self.instances.iter().map(|(n, _)| n.clone()));
                pool.extend(self.types.iter().cloned());
                if pool.is_empty() {
                    return;
                }
                let target = if !self.resources.is_empty() && self.t.chance(1, 2) {
                    self.resources[self.t.index(self.resources.len())].clone()
                } else {
                    pool[self.t.index(pool.len())].clone()
                };
                let n = self.fresh("al");
                self.out.push_str(&format!("type {n} = {target};\n"));
                self.probes.push("alias_of_local_name");
            }
            7 => {
                // alias chain: t1 = <ty>; t2 = t1; t3 = t2 (the last one is what later items use)
                let k = self.t.range(2, 4);
                let base = self.ty(1);
                let mut prev = self.fresh("ch");
                self.out.push_str(&format!("type {prev} = {base};\n"));
                for _ in 1..k {
                    let n = self.fresh("ch");
                    self.out.push_str(&format!("type {n} = {prev};\n"));
                    prev = n;
                }
                self.types.push(prev);
            }
            0 => {
                let n = self.fresh("t");
                let ty = self.ty(0);
                self.out.push_str(&format!("type {n} = {ty};\n"));
                self.types.push(n);
            }
            1 => {
                let n = self.fresh("r");
                let k = self.t.range(1, 4);
                let fields: Vec<String> = (0..k)
                    .map(|i| format!("    fld{i}: {}", self.ty(1)))
                    .collect();
                self.out
                    .push_str(&format!("record {n} {{\n{},\n}}\n", fields.join(",\n")));
                self.types.push(n);
            }
            2 => {
                let n = self.fresh("v");
                let k = self.t.range(1, 4);
                let cases: Vec<String> = (0..k)
                    .map(|i| {
                        if self.t.chance(1, 2) {
                            format!("    c{i}({})", self.ty(1))
                        } else {
                            format!("    c{i}")
                        }
                    })
                    .collect();
                self.out
                    .push_str(&format!("variant {n} {{\n{},\n}}\n", cases.join(",\n")));
                self.types.push(n);
            }
            3 => {
                let n = self.fresh("e");
                let k = self.t.range(1, 4);
                let cases: Vec<String> = (0..k).map(|i| format!("k{i}")).collect();
                self.out
                    .push_str(&format!("enum {n} {{ {} }}\n", cases.join(", ")));
                self.types.push(n);
            }
            4 => {
                let n = self.fresh("fl");
                let k = self.t.range(1, 4);
                let cases: Vec<String> = (0..k).map(|i| format!("b{i}")).collect();
                self.out
                    .push_str(&format!("flags {n} {{ {} }}\n", cases.join(", ")));
                self.types.push(n);
            }
            _ => {
                let n = self.fresh("ft");
                let f = self.func_type();
                self.out.push_str(&format!("type {n} = {f};\n"));
                // function types are not value types; usable as `name: ft` items only
                self.others.push(n);
            }
        }
    }

    fn interface_decl(&mut self) {
        let n = self.fresh("iface");
        let mut body = String::new();
        // `use` types from up to four foreign interfaces (the order of the dependencies an
        // encoded interface imports is fixed by the order of these `use`s)
        let pool: [(&str, &str, &str); 6] = [
            ("foo:shared/types@1.0.0", "point", "pt"),
            ("bar:util/fmt", "opts", "fo"),
            ("foo:shared/geo@1.2.0", "pt3", "p3"),
            ("foo:shared/types@1.2.0", "color", "col"),
            ("foo:shared/geo@1.2.0", "axis", "ax"),
            ("foo:shared/types@1.0.0", "id", "ident"),
        ];
        let nuse = *self.t.pick(&[0usize, 0, 1, 2, 3, 4]);
        let mut order: Vec<usize> = (0..pool.len()).collect();
        self.t.shuffle(&mut order);
        let mut used_names: Vec<&str> = Vec::new();
        for &k in order.iter().take(nuse) {
            let (path, ty, alias) = pool[k];
            if used_names.contains(&alias) {
                continue;
            }
            used_names.push(alias);
            body.push_str(&format!("    use {path}.{{{ty} as {alias}}};\n"));
            body.push_str(&format!("    get-{alias}: func() -> {alias};\n"));
        }
        let mut declared: Vec<String> = Vec::new();
        // `use` of types (value types and resources) of an earlier local interface, with and
        // without renaming, followed by a function over them
        if !self.iface_types.is_empty() && self.t.chance(1, 2) {
            let (src, names) = self.iface_types[self.t.index(self.iface_types.len())].clone();
            if !names.is_empty() {
                let ty = names[self.t.index(names.len())].clone();
                let local = if self.t.chance(1, 2) {
                    let l = format!("u-{}", ty);
                    body.push_str(&format!("    use {src}.{{{ty} as {l}}};\n"));
                    l
                } else {
                    body.push_str(&format!("    use {src}.{{{ty}}};\n"));
                    ty.clone()
                };
                let p = if ty.starts_with("res") && self.t.chance(1, 2) {
                    format!("borrow<{local}>")
                } else {
                    local.clone()
                };
                body.push_str(&format!("    over-{local}: func(a: {p}) -> option<{local}>;\n"));
                body.push_str(&format!("    type re-{local} = {local};\n"));
                declared.push(local);
                self.probes.push("use_of_local_interface_type");
            }
        }
        let k = self.t.range(0, 3);
        for i in 0..k {
            match self.t.draw(3) {
                0 => {
                    let f = self.func_type();
                    body.push_str(&format!("    fn{i}: {f};\n"));
                }
                1 => {
                    let ty = self.ty(1);
                    body.push_str(&format!("    type al{i} = {ty};\n"));
                    declared.push(format!("al{i}"));
                }
                _ => {
                    body.push_str(&format!(
                        "    resource res{i} {{\n        constructor(a: u32);\n        get: func() -> u32;\n        make: static func() -> res{i};\n    }}\n"
                    ));
                    declared.push(format!("res{i}"));
                }
            }
        }
        if self.wrong() {
            // a type declaration that reuses the name of an earlier function export (or vice versa)
            if self.t.chance(1, 2) {
                body.push_str("    dup: func();\n    record dup { a: u8 }\n");
            } else {
                body.push_str("    enum dup2 { a, b }\n    dup2: func();\n");
            }
        }
        self.out.push_str(&format!("interface {n} {{\n{body}}}\n"));
        self.iface_types.push((n.clone(), declared));
        self.interfaces.push(n);
    }

    fn world_decl(&mut self) {
        let n = self.fresh("wld");
        let mut body = String::new();
        if self.t.chance(1, 3) {
            let pool: [(&str, &str, &str); 4] = [
                ("foo:shared/types@1.0.0", "point", "pt"),
                ("bar:util/fmt", "opts", "fo"),
                ("foo:shared/geo@1.2.0", "pt3", "p3"),
                ("foo:shared/types@1.2.0", "color", "col"),
            ];
            let mut order: Vec<usize> = (0..pool.len()).collect();
            self.t.shuffle(&mut order);
            let nuse = self.t.range(2, 4) as usize;
            for &k in order.iter().take(nuse) {
                let (path, ty, alias) = pool[k];
                body.push_str(&format!("    use {path}.{{{ty} as {alias}}};\n"));
                body.push_str(&format!("    import take-{alias}: func(v: {alias});\n"));
            }
        }
        if !self.iface_types.is_empty() && self.t.chance(1, 3) {
            let (src, names) = self.iface_types[self.t.index(self.iface_types.len())].clone();
            if !names.is_empty() {
                let ty = names[self.t.index(names.len())].clone();
                let local = if self.t.chance(1, 2) {
                    let l = format!("w-{}", ty);
                    body.push_str(&format!("    use {src}.{{{ty} as {l}}};\n"));
                    l
                } else {
                    body.push_str(&format!("    use {src}.{{{ty}}};\n"));
                    ty
                };
                body.push_str(&format!("    import give-{local}: func(v: {local});\n"));
                body.push_str(&format!("    export get-{local}: func() -> {local};\n"));
                self.probes.push("use_of_local_interface_type");
            }
        }
        let k = self.t.range(0, 4);
        for i in 0..k {
            match self.t.draw(6) {
                0 => body.push_str("    import foo:shared/log@1.0.0;\n"),
                1 => body.push_str("    export bar:util/clock;\n"),
                2 if !self.interfaces.is_empty() => {
                    let j = self.t.index(self.interfaces.len());
                    let dir = if self.t.chance(1, 2) { "import" } else { "export" };
                    body.push_str(&format!("    {dir} {};\n", self.interfaces[j]));
                }
                3 => {
                    let f = self.func_type();
                    body.push_str(&format!("    import wf{i}: {f};\n"));
                }
                4 => {
                    let f = self.func_type();
                    body.push_str(&format!("    export we{i}: {f};\n"));
                }
                _ => body.push_str(&format!(
                    "    export wi{i}: interface {{\n        x: func();\n    }};\n"
                )),
            }
        }
        // include (the `with` list is where a hash map is consulted)
        if self.t.chance(1, 2) {
            let (path, plain): (&str, &[&str]) = match self.t.draw(3) {
                0 => ("bar:util/plain-world", &["a", "b", "c", "d"]),
                1 => ("foo:shared/app-world@1.0.0", &["run"]),
                _ => ("bar:util/plain-world", &["a", "b", "c", "d"]),
            };
            let nwith = self.t.draw(5) as usize;
            let mut with: Vec<String> = Vec::new();
            let mut missing = 0;
            let mut used: Vec<String> = Vec::new();
            for j in 0..nwith {
                let from = if self.t.chance(2, 3) && !plain.is_empty() {
                    plain[self.t.index(plain.len())].to_string()
                } else {
                    missing += 1;
                    format!("nope{j}")
                };
                if used.contains(&from) && !self.wrong() {
                    continue;
                }
                if !plain.contains(&from.as_str()) || used.contains(&from) {
                    // counts as missing only if it never matches
                }
                used.push(from.clone());
                with.push(format!("{from} as ren{j}"));
            }
            if missing >= 2 {
                self.probes.push(">=2_missing_with_names");
            }
            if with.is_empty() {
                body.push_str(&format!("    include {path};\n"));
            } else {
                body.push_str(&format!("    include {path} with {{ {} }};\n", with.join(", ")));
            }
        }
        if self.wrong() {
            match self.t.draw(3) {
                0 => body.push_str("    import dup: func();\n    record dup { a: u8 }\n"),
                1 => body.push_str("    import dup: func();\n    resource dup { constructor(); }\n"),
                _ => body.push_str("    export dup: func();\n    export dup: func();\n"),
            }
        }
        self.out.push_str(&format!("world {n} {{\n{body}}}\n"));
        self.worlds.push(n);
    }

    fn import_statement(&mut self) {
        let n = self.fresh("imp");
        let rename = if self.t.chance(1, 4) {
            format!(
                " as \"{}\"",
                self.t.pick(&[
                    "my-name",
                    "naïve",
                    "ключ-b",
                    "€uro",
                    "a😀b",
                    "a",
                    "b",
                    "f",
                    "foo:shared/log@1.0.0",
                    "foo:shared/log@1.1.0",
                    "foo:shared/types@1.0.0",
                    "foo:shared/types@1.1.0",
                    "bar:util/clock",
                    "x-y"
                ])
            )
        } else {
            String::new()
        };
        match self.t.draw(9) {
            7 | 8 => {
                // an inline interface with resources, value types and functions over them;
                // its exports are reachable by `let x = imp.name`
                let mut body = String::new();
                let mut exports: Vec<(String, char)> = Vec::new();
                let k = self.t.range(1, 4);
                for i in 0..k {
                    match self.t.draw(5) {
                        0 => {
                            body.push_str(&format!("    resource r{i};\n"));
                            body.push_str(&format!("    mk{i}: func() -> r{i};\n"));
                            body.push_str(&format!("    peek{i}: func(x: borrow<r{i}>) -> u32;\n"));
                            exports.push((format!("r{i}"), 'r'));
                            exports.push((format!("mk{i}"), 'f'));
                            exports.push((format!("peek{i}"), 'f'));
                        }
                        1 => {
                            body.push_str(&format!(
                                "    resource r{i} {{\n        constructor(a: u32);\n        get: func() -> u32;\n    }}\n"
                            ));
                            exports.push((format!("r{i}"), 'r'));
                        }
                        2 => {
                            let ty = self.ty(1);
                            body.push_str(&format!("    type t{i} = {ty};\n"));
                            body.push_str(&format!("    f{i}: func(a: t{i}) -> t{i};\n"));
                            exports.push((format!("t{i}"), 't'));
                            exports.push((format!("f{i}"), 'f'));
                        }
                        3 => {
                            body.push_str(&format!("    record rec{i} {{ a: u32, b: list<u8> }}\n"));
                            body.push_str(&format!("    enum en{i} {{ x, y }}\n"));
                            body.push_str(&format!("    g{i}: func(a: rec{i}, b: en{i});\n"));
                            exports.push((format!("rec{i}"), 't'));
                            exports.push((format!("en{i}"), 't'));
                            exports.push((format!("g{i}"), 'f'));
                        }
                        _ => {
                            let f = self.func_type();
                            body.push_str(&format!("    h{i}: {f};\n"));
                            exports.push((format!("h{i}"), 'f'));
                        }
                    }
                }
                self.out
                    .push_str(&format!("import {n}{rename}: interface {{\n{body}}};\n"));
                self.imp_ifaces.push((n.clone(), exports));
                self.others.push(n);
                self.probes.push("import_of_inline_interface_with_types");
            }
            6 => {
                // an explicit import carrying the name of an interface on the same semver track
                // as (or equal to) an implicit import of the library components
                let name = *self.t.pick(&[
                    "foo:shared/types@1.0.0",
                    "foo:shared/types@1.1.0",
                    "foo:shared/log@1.0.0",
                    "foo:shared/log@1.1.0",
                    "foo:shared/kv@1.0.0",
                    "bar:util/clock",
                ]);
                let ty = self
                    .t
                    .pick(&[
                        "func()",
                        "foo:shared/log@1.1.0",
                        "foo:shared/types@1.0.0",
                        "foo:shared/log@1.0.0",
                        "foo:shared/kv@1.0.0",
                        "foo:shared/nav@1.2.0",
                        "foo:shared/log@1.2.0",
                    ])
                    .to_string();
                self.out.push_str(&format!("import {n} as \"{name}\": {ty};\n"));
                self.others.push(n);
            }
            0 => {
                let f = self.func_type();
                self.out.push_str(&format!("import {n}{rename}: {f};\n"));
                self.others.push(n);
            }
            1 => {
                let p = *self.t.pick(&[
                    "foo:shared/log@1.0.0",
                    "foo:shared/kv@1.0.0",
                    "foo:shared/types@1.0.0",
                    "foo:shared/log@1.1.0",
                    "foo:shared/types@1.1.0",
                    "foo:shared/nav@1.2.0",
                    "foo:shared/log@1.2.0",
                    "bar:util/clock",
                    "bar:util/rand",
                    "bar:util/fmt",
                ]);
                self.out.push_str(&format!("import {n}{rename}: {p};\n"));
                self.others.push(n);
            }
            2 => {
                self.out.push_str(&format!(
                    "import {n}{rename}: interface {{\n    g: func();\n    h: func(a: u32) -> u32;\n}};\n"
                ));
                self.others.push(n);
            }
            3 if !self.interfaces.is_empty() => {
                let j = self.t.index(self.interfaces.len());
                self.out
                    .push_str(&format!("import {n}{rename}: {};\n", self.interfaces[j]));
                self.others.push(n);
            }
            4 => {
                // plain names that collide with implicit imports of the leaf components
                let nm = *self.t.pick(&["a", "b", "c", "d", "e", "z", "f", "g"]);
                self.out
                    .push_str(&format!("import {n} as \"{nm}\": func();\n"));
                self.others.push(n);
            }
            _ => {
                let f = self.func_type();
                self.out.push_str(&format!("import {n}: {f};\n"));
                self.others.push(n);
            }
        }
    }

    fn let_new(&mut self) {
        let lib = library();
        // only components (not the WIT packages at the end of the library)
        let comps = crate::corpus::component_indices();
        // half of the time pick from the components that share the foo:shared semver tracks
        // (1.0.0 / 1.1.0 / 1.2.0), so that three versions of one interface meet in one document
        const TRACK: &[&str] = &[
            "test:logger", "test:logger11", "test:store", "test:app", "test:app11", "test:mixer",
            "test:nav", "test:navimpl", "test:conflict", "odd:track-nest-a", "odd:track-nest-b", "odd:track-nest-c",
        ];
        let li = if self.t.chance(1, 2) {
            let track: Vec<usize> = comps.iter().copied().filter(|i| TRACK.contains(&lib[*i].name)).collect();
            track[self.t.index(track.len())]
        } else {
            comps[self.t.index(comps.len())]
        };
        let p = &lib[li];
        let n = self.fresh("inst");
        let mut args: Vec<String> = Vec::new();
        // explicit arguments from earlier instances that export a matching name
        for imp in &p.imports {
            if self.t.chance(1, 2) {
                let providers: Vec<(String, usize)> = self
                    .instances
                    .iter()
                    .filter(|(_, pi)| lib[*pi].exports.contains(imp))
                    .cloned()
                    .collect();
                if !providers.is_empty() {
                    let (pn, _) = &providers[self.t.index(providers.len())];
                    args.push(format!("\"{imp}\": {pn}[\"{imp}\"]"));
                }
            }
        }
        if !self.instances.is_empty() && self.t.chance(1, 4) {
            let (pn, _) = &self.instances[self.t.index(self.instances.len())];
            args.push(format!("...{pn}"));
        }
        // arguments named by identifier (the name is matched against the last segment of the
        // package's import names)
        if !self.others.is_empty() && self.t.chance(1, 4) {
            let ident = *self.t.pick(&["dep", "plain", "c", "log", "clock", "types", "f", "x"]);
            let o = self.others[self.t.index(self.others.len())].clone();
            if self.t.chance(1, 2) {
                args.push(format!("{ident}: {o}"));
            } else {
                args.push(o);
            }
        }
        if self.wrong() {
            args.push("bogus: missing-name".into());
        }
        let fill = !self.wrong() || p.imports.is_empty();
        if fill {
            args.push("...".into());
        }
        let r = if self.wrong() { "test:nonexistent".to_string() } else { pkg_ref(p) };
        self.out
            .push_str(&format!("let {n} = new {r} {{ {} }};\n", args.join(", ")));
        self.instances.push((n, li));
    }

    fn let_access(&mut self) {
        if !self.imp_ifaces.is_empty() && (self.instances.is_empty() || self.t.chance(1, 2)) {
            let (imp, exports) = self.imp_ifaces[self.t.index(self.imp_ifaces.len())].clone();
            let (e, kind) = exports[self.t.index(exports.len())].clone();
            let n = self.fresh("acc");
            if self.t.chance(1, 2) {
                self.out.push_str(&format!("let {n} = {imp}.{e};\n"));
            } else {
                self.out.push_str(&format!("let {n} = {imp}[\"{e}\"];\n"));
            }
            match kind {
                'r' => {
                    self.resources.push(n.clone());
                    self.probes.push("let_bound_resource_of_an_instance");
                }
                't' => self.types.push(n.clone()),
                _ => {}
            }
            self.others.push(n);
            return;
        }
        if self.instances.is_empty() {
            return;
        }
        let lib = library();
        let (inst, li) = self.instances[self.t.index(self.instances.len())].clone();
        let p = &lib[li];
        if p.exports.is_empty() {
            return;
        }
        let e = &p.exports[self.t.index(p.exports.len())];
        let n = self.fresh("acc");
        if self.wrong() {
            let bad = *self.t.pick(&["not-an-export", "нет", "é", "日本語/x@1.0.0"]);
            self.out.push_str(&format!("let {n} = {inst}[\"{bad}\"];\n"));
        } else if e.chars().all(|c| c.is_ascii_lowercase() || c == '-') && self.t.chance(1, 2) {
            self.out.push_str(&format!("let {n} = {inst}.{e};\n"));
        } else {
            self.out.push_str(&format!("let {n} = {inst}[\"{e}\"];\n"));
        }
        // exports that are types of the library's odd components
        if p.name == "odd:res" && e == "r" {
            self.resources.push(n.clone());
            self.probes.push("let_bound_resource_of_an_instance");
        }
        self.others.push(n);
    }

    /// Statements that put the subtype checker to work on matching shapes: a function over an
    /// alias chain passed for a function import, an instance with record / alias types passed
    /// for an instance import, a world passed where a component is expected.
    fn checker_family(&mut self) {
        let n = self.fresh("chk");
        match self.t.draw(4) {
            0 => {
                // func over list<u8> reached through 0-3 aliases (sometimes the wrong element type)
                let elem = if self.wrong() { "u16" } else { "u8" };
                let k = self.t.draw(4);
                let mut prev = format!("list<{elem}>");
                for _ in 0..k {
                    let a = self.fresh("by");
                    self.out.push_str(&format!("type {a} = {prev};\n"));
                    prev = a;
                }
                let res = if self.t.chance(1, 2) { prev.clone() } else { format!("list<{elem}>") };
                self.out
                    .push_str(&format!("import {n}: func(data: {prev}) -> {res};\n"));
                let inst = self.fresh("inst");
                self.out
                    .push_str(&format!("let {inst} = new test:consumer {{ process: {n}, ... }};\n"));
                self.probes.push("func_over_alias_chain_as_argument");
            }
            1 => {
                // an instance with the sink's shape (or nearly)
                let b = if self.wrong() { "list<u16>" } else { "list<u8>" };
                let second = if self.wrong() { "b: string" } else { "b: list<u8>" };
                self.out.push_str(&format!(
                    "import {n}: interface {{\n    record rec {{ a: u32, {second} }}\n    type buf0 = {b};\n    type buf = buf0;\n    take: func(r: rec, b: buf) -> buf;\n}};\n"
                ));
                let inst = self.fresh("inst");
                self.out.push_str(&format!(
                    "let {inst} = new test:consumer {{ \"test:consumer/sink\": {n}, ... }};\n"
                ));
                self.probes.push("instance_with_type_exports_as_argument");
            }
            2 => {
                // a world where a component type is expected; 0-3 of its items are absent
                let mut items: Vec<&str> = vec![
                    "import alpha: func();",
                    "import beta: func();",
                    "export gamma: func();",
                    "export delta: func();",
                    "export epsilon: func();",
                ];
                let drop = self.t.draw(4) as usize;
                self.t.shuffle(&mut items);
                let kept: Vec<&str> = items.iter().skip(drop).copied().collect();
                let w = self.fresh("shape");
                self.out.push_str(&format!("world {w} {{\n    {}\n}}\n", kept.join("\n    ")));
                self.out.push_str(&format!("import {n}: {w};\n"));
                let inst = self.fresh("inst");
                self.out
                    .push_str(&format!("let {inst} = new test:two-shape {{ c: {n}, ... }};\n"));
                if drop >= 2 {
                    self.probes.push("component_argument_missing_>=2_items");
                }
            }
            _ => {
                // spread of an instance that matches several imports of the target
                let a = self.fresh("src");
                self.out.push_str(&format!(
                    "import {a}: interface {{\n    x: func();\n    y: func();\n    z: func();\n}};\n"
                ));
                let inst = self.fresh("inst");
                let tail = if self.wrong() { "" } else { ", ..." };
                self.out
                    .push_str(&format!("let {inst} = new test:two-shape {{ ...{a}{tail} }};\n"));
                self.probes.push("spread_matching_>=2_imports");
            }
        }
    }

    fn export_statement(&mut self) {
        let lib = library();
        match self.t.draw(4) {
            0 if !self.instances.is_empty() => {
                let (inst, _) = self.instances[self.t.index(self.instances.len())].clone();
                self.out.push_str(&format!("export {inst}...;\n"));
            }
            1 if !self.instances.is_empty() => {
                let (inst, li) = self.instances[self.t.index(self.instances.len())].clone();
                let p = &lib[li];
                if !p.exports.is_empty() {
                    let e = &p.exports[self.t.index(p.exports.len())];
                    let nm = self.fresh("out");
                    if self.t.chance(1, 2) {
                        self.out
                            .push_str(&format!("export {inst}[\"{e}\"] as \"{nm}\";\n"));
                    } else {
                        self.out.push_str(&format!("export {inst}[\"{e}\"];\n"));
                    }
                }
            }
            2 if !self.others.is_empty() => {
                let o = self.others[self.t.index(self.others.len())].clone();
                let nm = self.fresh("out");
                self.out.push_str(&format!("export {o} as \"{nm}\";\n"));
            }
            _ if !self.instances.is_empty() => {
                let (inst, _) = self.instances[self.t.index(self.instances.len())].clone();
                let nm = self.fresh("out");
                self.out.push_str(&format!("export {inst} as \"{nm}\";\n"));
            }
            _ => {}
        }
    }
}

/// Generates a WAC document over the component library.
pub fn gen_doc(t: &mut Tape, max_statements: u64) -> DocCase {
    let error_rate = *t.pick(&[0u64, 0, 3, 15]);
    let family = t.draw(4); // 0: types-heavy, 1: composition-heavy, 2: mixed, 3: aggregator-heavy
    let mut g = DocGen {
        t,
        out: String::new(),
        types: Vec::new(),
        interfaces: Vec::new(),
        worlds: Vec::new(),
        instances: Vec::new(),
        others: Vec::new(),
        imp_ifaces: Vec::new(),
        iface_types: Vec::new(),
        resources: Vec::new(),
        counter: 0,
        probes: Vec::new(),
        error_rate,
    };
    let version = if g.t.chance(1, 3) { "@1.2.3" } else { "" };
    let targets = if g.t.chance(1, 8) {
        " targets foo:shared/app-world@1.0.0"
    } else {
        ""
    };
    g.out
        .push_str(&format!("package test:gen{version}{targets};\n\n"));
    let n = g.t.range(1, max_statements.max(1));
    for _ in 0..n {
        if g.t.chance(1, 12) {
            let c = *g.t.pick(&["// déjà vu — ünïcödé\n", "/// doc: 日本語 😀\n", "/* block ∑ comment */\n"]);
            g.out.push_str(c);
        }
        let pick = g.t.draw(20);
        match family {
            0 => match pick {
                0..=8 => g.type_statement(),
                9 => g.let_access(),
                10..=12 => g.interface_decl(),
                13..=15 => g.world_decl(),
                16..=17 => g.import_statement(),
                18 => g.let_new(),
                _ => g.export_statement(),
            },
            1 => match pick {
                0..=1 => g.type_statement(),
                2..=4 => g.import_statement(),
                5..=10 => g.let_new(),
                11 => g.checker_family(),
                12..=14 => g.let_access(),
                _ => g.export_statement(),
            },
            3 => match pick {
                0..=13 => g.let_new(),
                14..=15 => g.import_statement(),
                16..=17 => g.let_access(),
                _ => g.export_statement(),
            },
            _ => match pick {
                0..=4 => g.type_statement(),
                5 => g.interface_decl(),
                6..=7 => g.world_decl(),
                8..=9 => g.import_statement(),
                10..=13 => g.let_new(),
                14 => g.checker_family(),
                15..=16 => g.let_access(),
                _ => g.export_statement(),
            },
        }
    }
    // documents that import an interface with types usually go on to use its exports
    if !g.imp_ifaces.is_empty() && g.t.chance(2, 3) {
        g.let_access();
        if g.t.chance(1, 2) {
            g.type_statement();
        }
        if g.t.chance(1, 2) {
            g.export_statement();
        }
    }
    // aggregator-heavy documents often end with an explicit import that sits on the semver
    // track of an implicit import carried by several instantiations (a conflict with >= 2
    // candidates for "the previous instantiation")
    if (family == 3 || family == 1) && g.instances.len() >= 2 && g.t.chance(1, 2) {
        // versioned import names carried by at least two of the document's instantiations
        let lib = library();
        let mut counts: Vec<(String, usize)> = Vec::new();
        for (_, li) in &g.instances {
            for imp in lib[*li].imports.iter().filter(|i| i.contains('@')) {
                match counts.iter_mut().find(|(n, _)| n == imp) {
                    Some((_, c)) => *c += 1,
                    None => counts.push((imp.clone(), 1)),
                }
            }
        }
        let shared: Vec<String> = counts.into_iter().filter(|(_, c)| *c >= 2).map(|(n, _)| n).collect();
        if !shared.is_empty() {
            let carried = shared[g.t.index(shared.len())].clone();
            // same interface, another version of the track
            let (base, version) = carried.rsplit_once('@').unwrap();
            let other = match version {
                "1.0.0" => *g.t.pick(&["1.1.0", "1.2.0"]),
                "1.1.0" => *g.t.pick(&["1.0.0", "1.2.0"]),
                _ => *g.t.pick(&["1.0.0", "1.1.0"]),
            };
            let ty = *g.t.pick(&["func()", "func(a: u32) -> u32", "foo:shared/log@1.0.0", "bar:util/rand"]);
            let n = g.fresh("shadow");
            g.out.push_str(&format!("import {n} as \"{base}@{other}\": {ty};\n"));
            g.probes.push("explicit_import_on_implicit_track_with_>=2_instantiations");
        }
    }
    if g.instances.len() >= 2 {
        g.probes.push(">=2_instantiations");
    }
    let label = format!("gen:family{family}:err{error_rate}");
    let DocGen { out, probes, .. } = g;
    DocCase {
        label,
        source: out,
        packages: lib_packages(),
        probes,
    }
}

// ---------------------------------------------------------------------------
// Shipped .wac files
// ---------------------------------------------------------------------------

fn collect_wac(dir: &Path, deps_of: &dyn Fn(&Path) -> PathBuf, out: &mut Vec<(PathBuf, PathBuf)>) {
    let Ok(rd) = std::fs::read_dir(dir) else { return };
    let mut entries: Vec<PathBuf> = rd.filter_map(|e| e.ok().map(|e| e.path())).collect();
    entries.sort();
    for p in entries {
        if p.is_file() && p.extension().and_then(|e| e.to_str()) == Some("wac") {
            let deps = deps_of(&p);
            out.push((p, deps));
        }
    }
}

/// Every `.wac` file shipped in the repository together with its dependency directory.
pub fn shipped_files() -> Vec<(PathBuf, PathBuf)> {
    let mut v = Vec::new();
    let stem_dir = |p: &Path| p.parent().unwrap().join(p.file_stem().unwrap());
    for d in [
        "crates/wac-parser/tests/parser",
        "crates/wac-parser/tests/parser/fail",
        "crates/wac-parser/tests/resolution",
        "crates/wac-parser/tests/resolution/fail",
        "crates/wac-parser/tests/encoding",
        "crates/wac-parser/tests/encoding/fail",
    ] {
        collect_wac(&Path::new("/repo").join(d), &stem_dir, &mut v);
    }
    collect_wac(
        Path::new("/repo/examples"),
        &|_| PathBuf::from("/repo/examples/deps"),
        &mut v,
    );
    v
}

fn load_packages(source: &str, deps: &Path, packages: &mut Vec<(String, Option<String>, std::sync::Arc<Vec<u8>>)>) {
    if let Ok(doc) = wac_parser::Document::parse(source) {
        if let Ok(keys) = wac_resolver::packages(&doc) {
            // one key at a time so that a broken dependency does not hide the others
            for (key, span) in keys.iter() {
                let mut one = indexmap::IndexMap::new();
                one.insert(*key, *span);
                let resolver = wac_resolver::FileSystemPackageResolver::new(
                    deps.to_path_buf(),
                    Default::default(),
                    false,
                );
                if let Ok(found) = resolver.resolve(&one) {
                    for (k, bytes) in found {
                        packages.push((
                            k.name.to_string(),
                            k.version.map(|v| v.to_string()),
                            std::sync::Arc::new(bytes),
                        ));
                    }
                }
            }
        }
    }
}

static SHIPPED: OnceLock<Vec<DocCase>> = OnceLock::new();

/// The shipped documents with their packages pre-loaded through the real file-system resolver.
pub fn shipped_cases() -> &'static Vec<DocCase> {
    SHIPPED.get_or_init(|| {
        let mut cases = Vec::new();
        for (file, deps) in shipped_files() {
            let Ok(source) = std::fs::read_to_string(&file) else { continue };
            let source = source.replace("\r\n", "\n");
            // (a panic of the code under test while loading must not take the harness down)
            let packages = std::panic::catch_unwind(std::panic::AssertUnwindSafe(|| {
                let mut packages = Vec::new();
                load_packages(&source, &deps, &mut packages);
                packages
            }))
            .unwrap_or_default();
            let label = file
                .strip_prefix("/repo")
                .unwrap_or(&file)
                .display()
                .to_string();
            cases.push(DocCase {
                label,
                source,
                packages,
                probes: Vec::new(),
            });
        }
        cases
    })
}

/// Hand-written documents that resolve and encode on the unchanged tree and together touch
/// the statement and type grammar far more densely than the shipped examples: the seeds of
/// the byte- and token-level fault enumeration, and extra members of C16's document pool.
pub const HANDWRITTEN: &[(&str, &str)] = &[
    ("doc:types", include_str!("docs/types.wac")),
    ("doc:ifaces", include_str!("docs/ifaces.wac")),
    ("doc:compose", include_str!("docs/compose.wac")),
    ("doc:access", include_str!("docs/access.wac")),
    ("doc:checker", include_str!("docs/checker.wac")),
    ("doc:odd", include_str!("docs/odd.wac")),
    ("doc:targets", include_str!("docs/targets.wac")),
    ("doc:worlds", include_str!("docs/worlds.wac")),
    ("doc:tracks", include_str!("docs/tracks.wac")),
    ("doc:tracks2", include_str!("docs/tracks2.wac")),
    ("doc:comments", include_str!("docs/comments.wac")),
];

pub fn handwritten_cases() -> Vec<DocCase> {
    HANDWRITTEN
        .iter()
        .map(|(label, source)| DocCase {
            label: label.to_string(),
            source: source.to_string(),
            packages: lib_packages(),
            probes: Vec::new(),
        })
        .collect()
}
