//! Seams D (disk) and P (process): materialised scratch trees, disk faults, and the
//! built `wac` binary run as a child with controlled cwd / argv / env / hash seed.

use crate::tape::Tape;
use std::collections::{BTreeMap, BTreeSet};
use std::io::Read;
use std::path::{Path, PathBuf};
use std::process::{Command, Stdio};
use std::sync::atomic::{AtomicBool, Ordering};
use std::sync::Arc;

/// An in-memory model of a small directory tree (relative paths).
#[derive(Debug, Clone, Default)]
pub struct Tree {
    pub files: BTreeMap<String, Vec<u8>>,
    pub dirs: BTreeSet<String>,
    /// symbolic links: path -> target (relative to the tree root; may dangle)
    pub links: BTreeMap<String, String>,
}

impl Tree {
    pub fn file(&mut self, path: impl Into<String>, bytes: impl Into<Vec<u8>>) {
        self.files.insert(path.into(), bytes.into());
    }
    pub fn dir(&mut self, path: impl Into<String>) {
        self.dirs.insert(path.into());
    }
    pub fn link(&mut self, path: impl Into<String>, target: impl Into<String>) {
        self.links.insert(path.into(), target.into());
    }
    pub fn materialise(&self, root: &Path) -> std::io::Result<()> {
        std::fs::create_dir_all(root)?;
        for d in &self.dirs {
            std::fs::create_dir_all(root.join(d))?;
        }
        for (p, bytes) in &self.files {
            let full = root.join(p);
            if let Some(parent) = full.parent() {
                std::fs::create_dir_all(parent)?;
            }
            std::fs::write(full, bytes)?;
        }
        for (p, target) in &self.links {
            let full = root.join(p);
            if let Some(parent) = full.parent() {
                std::fs::create_dir_all(parent)?;
            }
            std::os::unix::fs::symlink(root.join(target), full)?;
        }
        Ok(())
    }
}

/// Where a package `ns:name[@version]` lives under a deps directory (the documented layout).
pub fn dep_path(deps: &str, name: &str, version: Option<&str>, ext: &str) -> String {
    let mut p = String::from(deps);
    for seg in name.split(':') {
        p.push('/');
        p.push_str(seg);
    }
    if let Some(v) = version {
        p.push('/');
        p.push_str(v);
    }
    p.push('.');
    p.push_str(ext);
    p
}

// ---------------------------------------------------------------------------
// Disk faults on stored bytes
// ---------------------------------------------------------------------------

pub const FAULT_KINDS: &[&str] = &[
    "truncate",
    "bitflip",
    "zero_range",
    "dup_range",
    "delete",
    "empty_file",
    "random_bytes",
    "dir_in_place_of_file",
    "core_module_in_place_of_component",
    "splice_from_other_file",
    "swap_files",
    "invalid_utf8",
    "insert_multibyte",
];

/// Applies one disk fault to `tree`; returns (kind, path) of what fired, if anything could fire.
pub fn apply_fault(t: &mut Tape, tree: &mut Tree, kinds: &[&'static str], prefer: Option<&str>) -> Option<(&'static str, String)> {
    if tree.files.is_empty() || kinds.is_empty() {
        return None;
    }
    let paths: Vec<String> = tree.files.keys().cloned().collect();
    let path = match prefer {
        Some(p) if tree.files.contains_key(p) && t.chance(1, 2) => p.to_string(),
        _ => paths[t.index(paths.len())].clone(),
    };
    let kind = *t.pick(kinds);
    let len = tree.files[&path].len();
    match kind {
        "truncate" => {
            if len == 0 {
                return None;
            }
            let k = t.index(len);
            tree.files.get_mut(&path).unwrap().truncate(k);
        }
        "bitflip" => {
            if len == 0 {
                return None;
            }
            let k = t.index(len);
            let b = t.draw(8) as u8;
            tree.files.get_mut(&path).unwrap()[k] ^= 1 << b;
        }
        "zero_range" => {
            if len == 0 {
                return None;
            }
            let a = t.index(len);
            let n = 1 + t.index((len - a).min(64));
            for x in &mut tree.files.get_mut(&path).unwrap()[a..a + n] {
                *x = 0;
            }
        }
        "dup_range" => {
            if len == 0 {
                return None;
            }
            let a = t.index(len);
            let n = 1 + t.index((len - a).min(64));
            let f = tree.files.get_mut(&path).unwrap();
            let chunk: Vec<u8> = f[a..a + n].to_vec();
            let at = a + n;
            f.splice(at..at, chunk);
        }
        "delete" => {
            tree.files.remove(&path);
        }
        "empty_file" => {
            tree.files.get_mut(&path).unwrap().clear();
        }
        "random_bytes" => {
            let n = t.index(200);
            let v: Vec<u8> = (0..n).map(|_| t.draw(256) as u8).collect();
            tree.files.insert(path.clone(), v);
        }
        "dir_in_place_of_file" => {
            tree.files.remove(&path);
            tree.dirs.insert(path.clone());
        }
        "core_module_in_place_of_component" => {
            tree.files
                .insert(path.clone(), b"\0asm\x01\0\0\0".to_vec());
        }
        "splice_from_other_file" => {
            if paths.len() < 2 || len == 0 {
                return None;
            }
            let other = paths[t.index(paths.len())].clone();
            let src = tree.files[&other].clone();
            if src.is_empty() {
                return None;
            }
            let a = t.index(src.len());
            let n = 1 + t.index((src.len() - a).min(128));
            let at = t.index(len);
            let f = tree.files.get_mut(&path).unwrap();
            let end = (at + n).min(f.len());
            f.splice(at..end, src[a..a + n].iter().copied());
        }
        "swap_files" => {
            if paths.len() < 2 {
                return None;
            }
            let other = paths[t.index(paths.len())].clone();
            if other == path {
                return None;
            }
            let a = tree.files[&path].clone();
            let b = tree.files[&other].clone();
            tree.files.insert(path.clone(), b);
            tree.files.insert(other, a);
        }
        "invalid_utf8" => {
            let at = t.index(len + 1);
            let bad: &[u8] = match t.draw(3) {
                0 => &[0xFF],
                1 => &[0xC3],
                _ => &[0xE2, 0x80],
            };
            let f = tree.files.get_mut(&path).unwrap();
            f.splice(at..at, bad.iter().copied());
        }
        "insert_multibyte" => {
            // a (valid) multi-byte character lands in the stored text, e.g. from a misdirected write
            let f = tree.files.get_mut(&path).unwrap();
            let ch = *t.pick(&["é", "ß", "€", "日", "😀", "\u{300}"]);
            // at a character boundary if the file is text, else anywhere
            let mut at = t.index(len + 1);
            if let Ok(text) = std::str::from_utf8(f) {
                while at > 0 && !text.is_char_boundary(at) {
                    at -= 1;
                }
            }
            f.splice(at..at, ch.bytes());
        }
        _ => return None,
    }
    Some((kind, path))
}

// ---------------------------------------------------------------------------
// Child processes
// ---------------------------------------------------------------------------

#[derive(Debug, Clone)]
pub struct ChildResult {
    pub code: Option<i32>,
    pub signal: Option<i32>,
    pub stdout: Vec<u8>,
    pub stderr: Vec<u8>,
    pub timed_out: bool,
}

pub fn bin_dir() -> PathBuf {
    crate::supervisor::verif_root().join("target/bin")
}

pub fn wac_binary() -> PathBuf {
    std::env::var_os("WACSIM_WAC_BIN")
        .map(PathBuf::from)
        .unwrap_or_else(|| bin_dir().join("wac-full"))
}

/// Runs the shipped `wac` binary in `cwd` with a controlled environment and hash seed.
pub fn run_wac(cwd: &Path, args: &[String], hash_seed: u64, timeout_s: u64) -> std::io::Result<ChildResult> {
    run_wac_io(cwd, args, hash_seed, timeout_s, false)
}

/// `stdout_full`: the child's stdout is a device on which every write fails with ENOSPC
/// (`/dev/full`) — the "full disk" fault for output that goes to stdout.
pub fn run_wac_io(cwd: &Path, args: &[String], hash_seed: u64, timeout_s: u64, stdout_full: bool) -> std::io::Result<ChildResult> {
    run_wac_plan(cwd, args, hash_seed, timeout_s, stdout_full, None)
}

/// Seam S: `io_plan` is a system-call fault plan for the LD_PRELOAD shim (see
/// `shim/getrandom_shim.c`): `(items, report file)`; `root=` and `report=` are added here.
/// The report file (outside the tree) receives one line per fault kind that actually fired.
pub fn run_wac_plan(
    cwd: &Path,
    args: &[String],
    hash_seed: u64,
    timeout_s: u64,
    stdout_full: bool,
    io_plan: Option<(&str, &Path)>,
) -> std::io::Result<ChildResult> {
    use std::os::unix::process::ExitStatusExt;
    let mut cmd = Command::new(wac_binary());
    cmd.args(args)
        .current_dir(cwd)
        .env_clear()
        .env("PATH", "/usr/bin:/bin")
        .env("HOME", cwd.join("home"))
        .env("XDG_CONFIG_HOME", cwd.join("home/.config"))
        .env("XDG_CACHE_HOME", cwd.join("home/.cache"))
        .env("NO_COLOR", "1")
        .env("LD_PRELOAD", bin_dir().join("getrandom_shim.so"))
        .env("VERIF_HASH_SEED", format!("{hash_seed}"))
        .stdin(Stdio::null())
        .stderr(Stdio::piped());
    if let Some((items, report)) = io_plan {
        let _ = std::fs::remove_file(report);
        // the tree is addressed through its canonical path (what /proc/self/fd shows)
        let root = std::fs::canonicalize(cwd).unwrap_or_else(|_| cwd.to_path_buf());
        cmd.env(
            "VERIF_IO_PLAN",
            format!("root={}/,report={},{items}", root.display(), report.display()),
        );
    }
    if stdout_full {
        cmd.stdout(std::fs::OpenOptions::new().write(true).open("/dev/full")?);
    } else {
        cmd.stdout(Stdio::piped());
    }
    let mut child = cmd.spawn()?;
    let out = child.stdout.take();
    let mut err = child.stderr.take().unwrap();
    let t_out = std::thread::spawn(move || {
        let mut v = Vec::new();
        if let Some(mut out) = out {
            let _ = out.read_to_end(&mut v);
        }
        v
    });
    let t_err = std::thread::spawn(move || {
        let mut v = Vec::new();
        let _ = err.read_to_end(&mut v);
        v
    });
    let done = Arc::new(AtomicBool::new(false));
    let timed_out = Arc::new(AtomicBool::new(false));
    let pid = child.id();
    let watchdog = {
        let done = done.clone();
        let timed_out = timed_out.clone();
        std::thread::spawn(move || {
            let mut waited = 0u64;
            while !done.load(Ordering::SeqCst) {
                std::thread::sleep(std::time::Duration::from_millis(20));
                waited += 20;
                if waited > timeout_s * 1000 {
                    timed_out.store(true, Ordering::SeqCst);
                    unsafe {
                        libc::kill(pid as i32, libc::SIGKILL);
                    }
                    break;
                }
            }
        })
    };
    let status = child.wait()?;
    done.store(true, Ordering::SeqCst);
    let stdout = t_out.join().unwrap_or_default();
    let stderr = t_err.join().unwrap_or_default();
    let _ = watchdog.join();
    Ok(ChildResult {
        code: status.code(),
        signal: status.signal(),
        stdout,
        stderr,
        timed_out: timed_out.load(Ordering::SeqCst),
    })
}

/// Whitespace- and box-drawing-insensitive form used to compare diagnostics.
pub fn squash(s: &str) -> String {
    s.chars()
        .filter(|c| {
            !c.is_whitespace()
                && !matches!(*c, '│' | '─' | '╭' | '╰' | '┬' | '·' | '×' | '╮' | '╯' | '├' | '┤' | '▶' | '┴' | '┼' | '╵' | '╷')
        })
        .collect()
}
